#!/bin/bash
# eval_seed.sh <dir-with-patch.diff+demo.py> <props...>: confirms a seeded change (tests pass, demo fails with / passes without)
# in a scratch copy outside /repo and /verif, then runs the given checks against the scratch copy.
set -u
export GOFLAGS=-mod=mod GOPROXY=off GOSUMDB=off GOTOOLCHAIN=local
D="$1"; shift
S=/root/gvc-scratch/seed-$$
mkdir -p $S && rsync -a --exclude .git /repo/ $S/ || exit 2
cd $S
go build -o $S/gpy.base . || { echo "BASE BUILD FAIL"; exit 2; }
if ! patch -p1 -s < "$D/patch.diff"; then echo "PATCH DOES NOT APPLY"; rm -rf $S; exit 2; fi
if go build ./... 2>&1 | tail -3 | grep -q .; then echo "BUILD FAIL"; fi
go build -o $S/gpy.mut . || { echo "MUT BUILD FAIL"; rm -rf $S; exit 2; }
T=$(go test -count=1 ./... 2>&1 | grep -v "^ok\|no test files" | head -5)
if [ -n "$T" ]; then echo "TESTS: FAIL"; echo "$T"; else echo "TESTS: pass"; fi
if [ -f "$D/demo.py" ]; then
  cp "$D/demo.py" $S/demo_seed.py
  (cd $S && timeout 60 ./gpy.base demo_seed.py >/tmp/seed_base.out 2>&1; echo "demo without change: exit=$? $(tail -1 /tmp/seed_base.out | cut -c1-80)")
  (cd $S && timeout 60 ./gpy.mut demo_seed.py >/tmp/seed_mut.out 2>&1; echo "demo with change: exit=$? $(grep -m1 -i 'panic\|FAIL\|Error' /tmp/seed_mut.out | cut -c1-100)")
fi
rm -f $S/gpy.base $S/gpy.mut $S/demo_seed.py
for P in "$@"; do
  OUT=$(/verif/bin/gvc -repo $S -verif /verif -noevidence check $P quick 2>&1)
  echo "check $P: exit=$? ; $(echo "$OUT" | grep -c '^VIOLATION') violation lines"
  echo "$OUT" | grep "failed obligation" | head -6
done
rm -rf $S
