#!/bin/bash
# eval_seed.sh <dir-with-patch.diff+demo.py> <props...>: confirms a seeded change (tests pass, demo fails with / passes without)
# in a scratch copy outside /repo and /verif, then runs the given checks against the scratch copy.
set -u
export GOFLAGS=-mod=mod GOPROXY=off GOSUMDB=off GOTOOLCHAIN=local
D="$1"; shift
S=/root/gvc-scratch/seed-$$
mkdir -p $S && rsync -a --exclude .git /repo/ $S/ || exit 2
cd $S
go build -o $S/gpy.base . || { echo "BASE BUILD FAIL"; exit 2; }
if ! patch -p1 -s < "$D/patch.diff"; then echo "PATCH DOES NOT APPLY"; rm -rf $S; exit 2; fi
if go build ./... 2>&1 | tail -3 | grep -q .; then echo "BUILD FAIL"; fi
go build -o $S/gpy.mut . || { echo "MUT BUILD FAIL"; rm -rf $S; exit 2; }
T=$(go test -count=1 ./... 2>&1 | grep -v "^ok\|no test files" | head -5)
if [ -n "$T" ]; then echo "TESTS: FAIL"; echo "$T"; else echo "TESTS: pass"; fi
if [ -f "$D/demo.py" ]; then
  # the demo may import helper modules that sit next to it: copy the whole directory
  mkdir -p $S/zz_seed_demo && cp -r "$D"/* $S/zz_seed_demo/
  (cd $S && timeout 60 ./gpy.base zz_seed_demo/demo.py >/tmp/seed_base.out 2>&1; echo "demo without change: exit=$? $(tail -1 /tmp/seed_base.out | cut -c1-80)")
  (cd $S && timeout 60 ./gpy.mut zz_seed_demo/demo.py >/tmp/seed_mut.out 2>&1; echo "demo with change: exit=$? $(grep -m1 -i 'panic\|FAIL\|Error' /tmp/seed_mut.out | cut -c1-100)")
fi
if [ -f "$D/demo_test.go" ]; then
  # an in-package Go test (package repl, compile, ...): passes without the change, fails with it
  PKG=$(grep -m1 '^package ' "$D/demo_test.go" | awk '{print $2}')
  if [ "$PKG" = "main" ]; then PKG=.; fi
  cp "$D/demo_test.go" $S/$PKG/zz_demo_test.go
  (cd $S && go test -count=1 -run TestDemo ./$PKG/ >/tmp/seed_mut.out 2>&1; echo "demo test with change: exit=$? $(grep -m1 -- '--- FAIL\|^ok\|FAIL' /tmp/seed_mut.out | cut -c1-100)")
  (cd $S && patch -R -p1 -s < "$D/patch.diff" && go test -count=1 -run TestDemo ./$PKG/ >/tmp/seed_base.out 2>&1; echo "demo test without change: exit=$? $(grep -m1 -- '--- FAIL\|^ok\|FAIL' /tmp/seed_base.out | cut -c1-100)"; patch -p1 -s < "$D/patch.diff")
  rm -f $S/$PKG/zz_demo_test.go
fi
rm -rf $S/gpy.base $S/gpy.mut $S/zz_seed_demo
for P in "$@"; do
  OUT=$(/verif/bin/gvc -repo $S -verif /verif -noevidence check $P quick 2>&1)
  echo "check $P: exit=$? ; $(echo "$OUT" | grep -c '^VIOLATION') violation lines"
  echo "$OUT" | grep "failed obligation" | grep -v "not generated" | head -6; echo "$OUT" | grep -c "not generated" | sed "s|^|  (plus obligations no longer generated: |; s|$|)|"
done
rm -rf $S
