#!/usr/bin/env python3
"""mkmutant.py NAME PROPERTY EXPECT FILE 'old' 'new'  -- writes selftest/mutants/NAME.patch (unified diff against /repo)."""
import sys, subprocess, tempfile, os, shutil
name, prop, expect, rel, old, new = sys.argv[1:7]
src = open(os.path.join("/repo", rel)).read()
if src.count(old) != 1:
    sys.exit(f"{name}: pattern occurs {src.count(old)} times in {rel}")
d = tempfile.mkdtemp()
a = os.path.join(d, "a", rel); b = os.path.join(d, "b", rel)
os.makedirs(os.path.dirname(a)); os.makedirs(os.path.dirname(b))
open(a, "w").write(src); open(b, "w").write(src.replace(old, new))
diff = subprocess.run(["diff", "-u", os.path.join("a", rel), os.path.join("b", rel)], cwd=d, capture_output=True, text=True).stdout
shutil.rmtree(d)
out = f"# property: {prop}\n# expect: {expect}\n" + diff
open(f"/verif/selftest/mutants/{name}.patch", "w").write(out)
print("wrote", name)
