#!/bin/bash
# eval_seed_gotest.sh <dir with patch.diff + demo_test.go> <pkgdir> <props...>
set -u
export GOFLAGS=-mod=mod GOPROXY=off GOSUMDB=off GOTOOLCHAIN=local
D="$1"; PKG="$2"; shift; shift
S=/root/gvc-scratch/seedg-$$
mkdir -p $S && rsync -a --exclude .git /repo/ $S/ || exit 2
cd $S
cp "$D/demo_test.go" $S/$PKG/zz_demo_test.go
R0=$(go test -count=1 -timeout 30s ./$PKG/ 2>&1 | tail -1)
echo "demo without change: $R0"
rm $S/$PKG/zz_demo_test.go
patch -p1 -s < "$D/patch.diff" || { echo "PATCH DOES NOT APPLY"; rm -rf $S; exit 2; }
T=$(go test -count=1 ./... 2>&1 | grep -v "^ok\|no test files" | head -5)
if [ -n "$T" ]; then echo "TESTS: FAIL"; echo "$T"; else echo "TESTS: pass"; fi
cp "$D/demo_test.go" $S/$PKG/zz_demo_test.go
R1=$(go test -count=1 -timeout 30s ./$PKG/ 2>&1 | grep -m2 -i "fail\|panic" | tr '\n' ' ')
echo "demo with change: $R1"
rm $S/$PKG/zz_demo_test.go
for P in "$@"; do
  OUT=$(/verif/bin/gvc -repo $S -verif /verif -noevidence check $P quick 2>&1)
  echo "check $P: exit=$? ; $(echo "$OUT" | grep -c '^VIOLATION') violation lines"
  echo "$OUT" | grep "failed obligation" | head -6
done
rm -rf $S
