#!/usr/bin/env python3
# Regenerates MANIFEST.json from the table below (kept as code so that it stays valid and consistent).
import json, subprocess
hooks = subprocess.run(["git","-C","/repo","log","--format=%H","--grep","^verif hook"],capture_output=True,text=True).stdout.split()
baseline = json.load(open("/root/.vp/BASELINE.json"))["cmd"]
claimed = {
 "C07": ("Every obligation is a verification condition over the SSA of the real integer functions (py/int.go, py/bigint.go, py/bool.go) under contracts whose postconditions state the exact mathematical result (den(r) == a op b over unbounded integers), canonical representation and the Python exception; discharged for all 64-bit operands and all big values by SMT. This is the right level because the property is 'for all operands' over loop-free code.",
         "math/big is trusted through the extern contracts in contracts/10_mathbig.gvc (exact arithmetic on a ghost value); global invariants about package-level constants are assumed; text conversion (strconv/fmt) is outside the contracts.", "2, 4 (C07)"),
 "C10": ("Owns the zero-annotation safety obligations (index and slice bounds, nil dereference, failed type assertion, division by zero, negative shift, make size, nil-map write, explicit panic) and the call-site preconditions of every function under contract for any property; each is a VC over the real SSA, discharged for all inputs. Sites that fail are either fixed in the repository or listed in known_findings.json with the input region outside of which the obligation is proved.",
         "Only functions under contract are covered (listed in the evidence); memory exhaustion, stack overflow, functions without contracts and panics inside reflect-driven lookups are outside. User-defined Python code reached through interface calls is modelled as 'may modify every Python-mutable heap component'.", "4 (C10)"),
 "C13": ("Slice.GetIndices is proved equal to the slice.indices specification over unbounded operands (including the in-bounds corollary for every produced index), Index/IndexInt/IndexIntCheck to the normalisation spec, and list/tuple indexing, slicing, concatenation and deletion to element-wise postconditions over the whole result with the operands unchanged and results fresh; loops carry quantified invariants.",
         "Operands of user-defined types with __index__ are outside the functional clauses (frame is 'modifies everything'); str, range and bytes are not yet under contract; replay of sequence counterexamples is not implemented (violations there are reported with no-failing-input-found).", "4 (C13)"),
 "C12": ("VM side of stack safety: for 84 opcode handlers registered in the VM's jump table and for Vm.Call, the change of the value-stack length on the normal (err == nil) edge is proved EQUAL to compile.opcodeStackEffect(op, arg) - the real predictor function of the compiler, encoded from its own SSA, not re-typed - for every operand value and every stack, the block-stack delta is proved, the frame pointer is unchanged and (where provable) no nil is left on the stack. Equality of every step delta with the predictor gives equality of depths by induction on execution length (meta-argument).",
         "Exception/with/finally opcodes whose delta depends on the mode (SETUP_WITH, SETUP_EXCEPT/FINALLY, WITH_CLEANUP, END_FINALLY, POP_EXCEPT, FOR_ITER, JUMP_IF_*_OR_POP, YIELD_*), the assembler (positions, jumps, lnotab), operand tables and the compiler-side depth induction are not yet under contract; the precondition 'stack deep enough' is assumed (established by the compiler). Calls out of the VM are assumed not to write the running frame's fields (ownership assumption listed in evidence).", "4 (C12 group 1)"),
 "C09": ("Sequential ghost protocol of the context lifecycle, proved over the real SSA of pushBusy, popBusy, RunCode, ModuleInit, ResolveAndCompile and Close: a ghost counter models the WaitGroup (Done requires counter > 0, so a negative-counter panic is an unprovable precondition), every entry point performs Done exactly as often as Add on every path including rejected requests, a request on a closed context returns an ordinary error, Close leaves closed = true, counter = 0, close callbacks run exactly once and the done channel closed exactly once (closing a closed channel is a safety obligation), and a second Close changes nothing (sync.Once modelled by a ghost flag with the closure body encoded in place).",
         "Interleavings are NOT decided: the Owicki-Gries layer of DESIGN.md section 4 is not built, so 'under every interleaving' is covered only for the schedule-independent facts above; the check-then-Add window of pushBusy (A22) is a defect seen by reading that no built obligation expresses. sync.WaitGroup/Once and close(chan) are trusted contracts; plain bool fields are treated as sequentially consistent.", "4 (C09)"),
 "C02": ("The unwinding loop of the real vm.RunFrame is proved, one iteration at a time, against the CPython 3.4 unwinding table (DESIGN Appendix C): for the block on top and the pending reason, the step clauses fix the resulting reason, resume address, block-stack length, value-stack depth and contents (continue re-enters the loop, break truncates to the block level, an exception entering an except/finally block pushes exactly six values - old and new exception triples - and installs an ExceptHandler block at the unwound level with the pending exception cleared and made current, return/continue/break entering a finally block push the return value and the reason code, an ExceptHandler block restores the saved exception and keeps unwinding, every other pair pops and continues). The invariants vm.frame == frame, well-formed block stack and non-negative block levels are proved on entry and preserved. END_FINALLY, POP_EXCEPT, POP_BLOCK, SETUP_LOOP/EXCEPT/FINALLY, BREAK_LOOP, CONTINUE_LOOP, RETURN_VALUE, UnwindBlock, UnwindExceptHandler, PushBlock and PopBlock carry exact per-mode contracts; FOR_ITER ends the loop only on StopIteration and returns any other error unchanged; the traceback line is the line of the last byte of the raising instruction.",
         "The opcode dispatch inside RunFrame is abstracted by the generic handler contract jumpTable_entry (frame pointer and block-stack well-formedness preserved; assumed, each handler proves it individually under C12); exception class matching (IsException/IsSubtype) and the line table decoder are named by abstract functions with trusted definitional contracts; WITH_CLEANUP, SETUP_WITH, RAISE_VARARGS and the compiler's code generation for try/with are not under contract; the precondition sp >= level + 3 of UnwindExceptHandler and Lasti >= 0 at AddTraceback are not established (listed as undischarged).", "4 (C02)"),
 "C05": ("Iteration protocol as a per-activation ghost: lasterr[0] is the error returned by the last Next call of the current activation (nil at entry, set by Next's contract, untouched by callees). Consumers (py.Iterate, str.join, all, any, sum, min/max, next, unpack_iterable, FOR_ITER) are proved to end normally when that error is a StopIteration by class or instance (abstract predicate excmatch, the value py.IsException returns) and to return exactly that error otherwise; the adapters filter/map/zip/enumerate pass every error on unchanged; Generator.Send is proved against the state machine NotStarted/Suspended/Running/Done (running => ValueError with the frame untouched, exhausted stays exhausted, an error from the frame finishes the generator, a value is returned only while suspended).",
         "py.Next and py.IsException are trusted contracts (Next sets the ghost; IsException == excmatch); the callback of Iterate and user-defined __next__ are arbitrary code (modifies everything); consumers built on Iterate (list(), tuple(), set(), star-calls) inherit its contract without being checked themselves; YIELD_FROM, sorted, math.fsum and stdlib/array are not under contract; RunFrame re-entry (locals preserved across suspension) is assumed.", "4 (C05)"),
}
na = {
 "C06": "not applicable to this technique family: the only faithful specification of the LALR parser is the grammar itself (DESIGN.md section 5)",
}
all_ids = ["C%02d" % i for i in range(1, 21)]
checks = []
for pid in all_ids:
    if pid in claimed:
        text, note, ref = claimed[pid]
        checks.append({
          "property_id": pid,
          "quick_cmd": "bin/check %s quick" % pid,
          "thorough_cmd": "bin/check %s thorough" % pid,
          "evidence_file": "evidence/%s.json" % pid,
          "replay_cmd_template": "bin/check --replay {path}",
          "engine": "gvc",
          "level_claimed": {"category": "proof", "text": text, "design_ref": "DESIGN.md section " + ref},
          "level_note": note,
          "technique": "contract-based deductive verification: weakest-precondition style VCs generated from go/ssa of the real functions under //@ contracts, discharged by z3/cvc5",
        })
not_app = []
for pid in all_ids:
    if pid not in claimed:
        not_app.append({"property_id": pid, "reason": na.get(pid, "in-family scope designed in DESIGN.md section 4 but the contracts are not built yet; not claimed rather than checked by another technique")})
m = {
 "version": 1,
 "setup_cmd": "bin/setup",
 "hooks": {"guard": "verif", "enable": "go build -tags verif (gvc loads /repo with -tags=verif; the tag only adds comment-only contract files zz_contracts_verif.go)",
           "baseline_off_cmd": baseline, "source_commits": hooks, "add_only": True},
 "engines": [{"name": "gvc", "path": "gvc/", "serves_properties": sorted(claimed), "kind_free_text": "verification-condition generator over go/ssa with contracts in structured comments; SMT back ends z3 4.8.12, z3 5.1.0, cvc5 1.0.3"}],
 "checks": checks,
 "notes": "See DESIGN.md. known_findings.json lists recorded findings and fixed defects.",
 "not_applicable": not_app,
}
json.dump(m, open("/verif/MANIFEST.json", "w"), indent=1)
print("MANIFEST.json written:", len(checks), "checks,", len(not_app), "not applicable")
