# Ids of traced operations (py dispatchers), shared by gen_contracts.py and gen_vm_contracts.py (C01).
NAMES = ("Add IAdd Sub ISub Mul IMul TrueDiv ITrueDiv FloorDiv IFloorDiv Mod IMod Lshift ILshift Rshift IRshift "
         "And IAnd Xor IXor Or IOr Pow IPow Gt Ge Lt Le Eq Ne Neg Pos Abs Invert Not Iter GetItem SetItem DelItem "
         "GetAttrString SetAttrString DeleteAttrString Repr NewModule RunCode ModuleInit RunFile Iterate GetDict MakeBool").split()
OPID = {n: i + 1 for i, n in enumerate(NAMES)}
