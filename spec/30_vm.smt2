; Abstract functions naming what library routines compute (each is pinned by the contract of the real function).
; lnodec(code, addr): the source line the line table of code object `code` (immutable) assigns to bytecode address addr
(declare-fun lnodec (Int Int) Int)
; excmatch(cls, err): err (an exception instance, class or ExceptionInfo) is an instance of class cls by inheritance
(declare-fun excmatch (Int Iface) Bool)
; loaded(ctx, name): module `name` is in the module store of context ctx; modof(ctx, name): that module
(declare-fun loaded (Iface Str) Bool)
(declare-fun modof (Iface Str) Int)
