; Integer semantics of Python, written from the language reference (numeric types, binary arithmetic
; operations, shifting operations); unbounded mathematical integers.
(define-fun inInt64 ((x Int)) Bool (and (<= (- 9223372036854775808) x) (<= x 9223372036854775807)))
(define-fun inGoInt ((x Int)) Bool (and (<= (- 9223372036854775808) x) (<= x 9223372036854775807)))
; floor division and modulo: the quotient is rounded towards minus infinity, the remainder has the sign of the divisor
(define-fun floordiv ((a Int) (b Int)) Int (ite (> b 0) (div a b) (div (- a) (- b))))
(define-fun pymod ((a Int) (b Int)) Int (- a (* b (floordiv a b))))
(define-fun absint ((a Int)) Int (ite (< a 0) (- a) a))
(define-fun sgn ((a Int)) Int (ite (< a 0) (- 1) (ite (> a 0) 1 0)))
(define-fun truncdiv ((a Int) (b Int)) Int (tdiv a b))
(define-fun truncrem ((a Int) (b Int)) Int (trem a b))
; 2**n: exact table up to 64, uninterpreted beyond (big shifts are carried by math/big's contract)
(declare-fun pow2big (Int) Int)
(define-fun pow2 ((n Int)) Int (ite (<= n 64) (pow2c n) (pow2big n)))
(assert (forall ((n Int)) (! (> (pow2big n) 18446744073709551616) :pattern ((pow2big n)))))
; a**n for n >= 0 (uninterpreted: math/big.Exp is trusted to compute it)
(declare-fun pypow (Int Int) Int)
(define-fun imin ((a Int) (b Int)) Int (ite (<= a b) a b))
(define-fun imax ((a Int) (b Int)) Int (ite (>= a b) a b))
; Python's modulo written with SMT-LIB mod (same function as pymod by uniqueness of Euclidean division; used where the
; modulus is symbolic and the remainder is produced by a library mod, e.g. three-argument pow)
(define-fun pymodm ((a Int) (b Int)) Int (ite (> b 0) (mod a b) (- (mod (- a) (- b)))))
; negation law of Euclidean remainders (elementary number theory; trusted lemma)
;@for pymodm
(assert (forall ((p Int) (n Int)) (! (=> (> n 0) (= (mod (- p) n) (ite (= (mod p n) 0) 0 (- n (mod p n))))) :pattern ((mod (- p) n)))))
