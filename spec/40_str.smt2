; Strings as sequences of code points over their UTF-8 storage (C14).  Str is the engine's sort of Go strings
; (str_len = number of bytes, str_nrunes = number of code points as Go's range/utf8.RuneCountInString count them,
; str_sub = byte-offset substring).  cpoff(s, n) is the byte offset at which the n-th code point starts
; (n = nrunes: the end).  The axioms are the elementary facts of that decomposition (trusted, like the rest of
; this directory; they are included in a query only when the query mentions cpoff).
(define-fun nrunes ((s Str)) Int (str_nrunes s))
(define-fun nbytes ((s Str)) Int (str_len s))
(define-fun substr ((s Str) (a Int) (b Int)) Str (str_sub s a b))
(declare-fun cpoff (Str Int) Int)
; the code-point slice [a, b) of s, 0 <= a <= b <= nrunes(s)
(define-fun cpslice ((s Str) (a Int) (b Int)) Str (str_sub s (cpoff s a) (cpoff s b)))
;@for cpoff
(assert (forall ((s Str)) (! (and (= (cpoff s 0) 0) (= (cpoff s (str_nrunes s)) (str_len s)) (<= 0 (str_nrunes s)) (<= (str_nrunes s) (str_len s))) :pattern ((str_nrunes s)))))
;@for cpoff
(assert (forall ((s Str) (n Int)) (! (=> (and (<= 0 n) (<= n (str_nrunes s))) (and (<= n (cpoff s n)) (<= (cpoff s n) (- (str_len s) (- (str_nrunes s) n))))) :pattern ((cpoff s n)))))
;@for cpoff
(assert (forall ((s Str) (a Int) (b Int)) (! (=> (and (<= 0 a) (< a b) (<= b (str_nrunes s))) (<= (+ (cpoff s a) (- b a)) (cpoff s b))) :pattern ((cpoff s a) (cpoff s b)))))
; a suffix starting at a code-point boundary decomposes like the whole string
;@for cpoff
(assert (forall ((s Str) (a Int) (b Int)) (! (=> (and (<= 0 a) (<= a (str_nrunes s)) (<= 0 b) (<= (+ a b) (str_nrunes s)))
   (and (= (str_nrunes (str_sub s (cpoff s a) (str_len s))) (- (str_nrunes s) a))
        (= (+ (cpoff (str_sub s (cpoff s a) (str_len s)) b) (cpoff s a)) (cpoff s (+ a b)))))
   :pattern ((cpoff (str_sub s (cpoff s a) (str_len s)) b)))))
; the whole string is its own [0, len) substring
;@for cpoff
(assert (forall ((s Str)) (! (= (str_sub s 0 (str_len s)) s) :pattern ((str_sub s 0 (str_len s))))))
; a prefix of a suffix is a substring of the whole
;@for cpoff
(assert (forall ((s Str) (a Int) (c Int)) (! (=> (and (<= 0 a) (<= 0 c) (<= (+ a c) (str_len s))) (= (str_sub (str_sub s a (str_len s)) 0 c) (str_sub s a (+ a c)))) :pattern ((str_sub (str_sub s a (str_len s)) 0 c)))))
; bytes of a substring are bytes of the string
;@for str_sub
(assert (forall ((s Str) (a Int) (b Int) (k Int)) (! (=> (and (<= 0 a) (<= a b) (<= b (str_len s)) (<= 0 k) (< k (- b a))) (= (str_at (str_sub s a b) k) (str_at s (+ a k)))) :pattern ((str_at (str_sub s a b) k)))))
