; Sequence model of Python (sequence types, slice.indices / PySlice_GetIndicesEx) over unbounded integers.
; n >= 0 is the sequence length; has* tell whether the operand is present (not None); t is the step (t != 0).
(define-fun norm ((i Int) (n Int)) Int (ite (< i 0) (+ i n) i))
(define-fun si_step ((hasT Bool) (t Int)) Int (ite hasT t 1))
(define-fun si_lo ((st Int)) Int (ite (< st 0) (- 1) 0))
(define-fun si_hi ((st Int) (n Int)) Int (ite (< st 0) (- n 1) n))
(define-fun si_clip ((has Bool) (x Int) (d Int) (st Int) (n Int)) Int
  (let ((x1 (ite (< x 0) (+ x n) x)))
    (ite has (ite (< x1 (si_lo st)) (si_lo st) (ite (> x1 (si_hi st n)) (si_hi st n) x1)) d)))
(define-fun si_start ((hasS Bool) (s Int) (st Int) (n Int)) Int
  (si_clip hasS s (ite (< st 0) (si_hi st n) (si_lo st)) st n))
(define-fun si_stop ((hasE Bool) (e Int) (st Int) (n Int)) Int
  (si_clip hasE e (ite (< st 0) (si_lo st) (si_hi st n)) st n))
(define-fun si_len ((a Int) (b Int) (st Int)) Int
  (ite (< st 0) (ite (>= b a) 0 (+ (div (- (- a b) 1) (- st)) 1))
                (ite (>= a b) 0 (+ (div (- (- b a) 1) st) 1))))
; range(start, stop, step): number of elements (step != 0) and the k-th element, over unbounded integers
(define-fun range_len ((start Int) (stop Int) (step Int)) Int
  (ite (> step 0) (ite (< start stop) (+ (div (- (- stop start) 1) step) 1) 0)
                  (ite (> start stop) (+ (div (- (- start stop) 1) (- step)) 1) 0)))
