package main

// Contract files: comment-only Go files behind //go:build verif in /repo/<pkg>/zz_contracts_verif.go
// and /verif/contracts/*.gvc for trusted externals.  Every line of interest starts with "//@".

import (
	"fmt"
	"os"
	"path/filepath"
	"regexp"
	"sort"
	"strconv"
	"strings"
)

type Clause struct {
	Label string
	E     CExpr
	Src   string
}

type LoopSpec struct {
	Ordinal   int
	Vars      []string
	Invs      []Clause
	Steps     []Clause // checked on every edge that ends an iteration (back edges and loop exits); iter(e) = e at iteration start
	Decreases CExpr
	Modifies  []CExpr // optional explicit loop frame
	Staged    bool    // invariant k is proved preserved from invariants 1..k only (incremental strengthening)
}

type Contract struct {
	Key      string // full SSA function name
	Pkg      string // package path used to resolve unqualified identifiers
	File     string
	Params   []string
	Results  []string
	Requires []Clause
	Ensures  []Clause
	CallSites []CallSiteClause // assertions over the locals at every call of a named callee
	Traced   int      // > 0: every call site records (id, arguments, first result) in the caller's local ghosts opid/opcall
	Panics   []Clause // the function ends in a panic (no normal return) exactly when one of these holds at entry
	Modifies []CExpr
	ModAll   bool
	Pure     bool
	Trusted  bool // body not checked (externals, assumptions)
	Extern   bool
	Inline   bool
	NoInline bool
	AbstractFloat bool // int->float conversions in the body yield an unconstrained float (the contract does not speak about float values)
	Iface    bool // contract of an interface method (key = pkg.Iface.Method)
	Splits   []SplitSpec // case splits applied to every ensures obligation
	Protects []CExpr     // objects whose fields survive every havoc inside this function (ownership assumption)
	PureIf   CExpr       // when this holds in the pre-state the call modifies nothing (frame is conditional)
	PureMods []CExpr     // ... except these targets (pureifmods): the frame under PureIf
	Loops    map[int]*LoopSpec
	Props    []string // property ids that own this function's obligations (informational)
}

type CallSiteClause struct {
	Callee string // short function name, e.g. "RunFrame" or "py.NewGenerator"
	Clause Clause
}

type SplitSpec struct {
	Var    CExpr
	Lo, Hi int64
}

type SpecParam struct{ Name, Type string }

type SpecMacro struct {
	Name   string
	Pkg    string
	Params []SpecParam
	Ret    string
	Body   CExpr
}

type Ghost struct {
	Name      string
	Sort      string // SMT sort of the element: Int, Bool, Iface
	AllocType string // Go type whose allocation zero-initialises this ghost ("" = none)
	Stable    bool   // survives every havoc (conceptual state of the environment, changed only by explicit modifies targets)
	Local     bool   // activation-local ghost: zero at function entry, never changed by callees except through an explicit modifies target
}

type ImmutDecl struct {
	Pkg   string
	Spec  string // "Type.Field" or "ghost NAME"
}

type GlobalInv struct {
	Label string
	Pkg   string
	E     CExpr
}

type Lemma struct {
	Name string
	Pkg  string
	Vars []SpecParam
	Hyps []Clause
	Goal []Clause
}

type Contracts struct {
	Funcs   map[string]*Contract
	Specs   map[string]*SpecMacro
	Ghosts  map[string]*Ghost
	GInvs   []*GlobalInv
	Lemmas  []*Lemma
	AllowGlobalWrite []ImmutDecl // package-level variables that may be written outside init (debug switches), with the reason
	ElemPtr   []ImmutDecl // struct types whose pointers always point into a slice's backing array (&s[i])
	Immutable []ImmutDecl // heap components that no code writes after construction (checked by SSA scan)
	Sources []string
}

func NewContracts() *Contracts {
	return &Contracts{Funcs: map[string]*Contract{}, Specs: map[string]*SpecMacro{}, Ghosts: map[string]*Ghost{}}
}

var clauseKeywords = map[string]bool{
	"ghost": true, "spec": true, "global-invariant": true, "func": true, "extern": true, "iface": true,
	"requires": true, "ensures": true, "modifies": true, "pure": true, "trusted": true, "inline": true,
	"noinline": true, "abstractfloat": true, "loop": true, "invariant": true, "decreases": true, "lemma": true, "assume": true,
	"show": true, "props": true, "loopmodifies": true, "split": true, "pureif": true, "pureifmods": true, "immutable": true, "protects": true, "elemptr": true, "step": true, "panics": true, "allow-global-write": true, "traced": true, "callsite": true,
}

// logical lines: keyword + rest (continuations joined)
type cline struct {
	kw   string
	rest string
	file string
	line int
}

func readContractLines(path string) ([]cline, string, error) {
	data, err := os.ReadFile(path)
	if err != nil {
		return nil, "", err
	}
	var out []cline
	pkgName := ""
	for n, raw := range strings.Split(string(data), "\n") {
		t := strings.TrimSpace(raw)
		if strings.HasPrefix(t, "package ") && pkgName == "" {
			pkgName = strings.TrimSpace(strings.TrimPrefix(t, "package "))
			continue
		}
		if !strings.HasPrefix(t, "//@") {
			continue
		}
		t = strings.TrimSpace(strings.TrimPrefix(t, "//@"))
		if i := strings.Index(t, " //"); i >= 0 { // trailing comment
			t = strings.TrimSpace(t[:i])
		}
		if t == "" {
			continue
		}
		fields := strings.Fields(t)
		kw := fields[0]
		if clauseKeywords[kw] {
			out = append(out, cline{kw, strings.TrimSpace(strings.TrimPrefix(t, kw)), path, n + 1})
		} else {
			if len(out) == 0 {
				return nil, "", fmt.Errorf("%s:%d: continuation without clause", path, n+1)
			}
			out[len(out)-1].rest += " " + t
		}
	}
	return out, pkgName, nil
}

var reFuncHdr = regexp.MustCompile(`^(\(\s*\*?[\w./-]+\s*\)\s*\.\s*\w+|[\w./@:#$-]+)\s*\(([^)]*)\)\s*(?:\(([^)]*)\))?\s*$`)

func namesOf(list string) []string {
	var out []string
	for _, it := range strings.Split(list, ",") {
		f := strings.Fields(it)
		if len(f) > 0 {
			out = append(out, f[0])
		}
	}
	return out
}

func qualify(name, pkgPath string) string {
	// name is "f", "(T).m", "(*T).m" possibly already qualified (contains '/' or a dot inside type)
	name = strings.ReplaceAll(name, " ", "")
	if strings.HasPrefix(name, "(") {
		i := strings.Index(name, ")")
		recv := name[1:i]
		rest := name[i+1:]
		star := ""
		if strings.HasPrefix(recv, "*") {
			star = "*"
			recv = recv[1:]
		}
		if !strings.Contains(recv, ".") && pkgPath != "" {
			recv = pkgPath + "." + recv
		}
		return "(" + star + recv + ")" + rest
	}
	if strings.HasPrefix(name, "@") && pkgPath != "" {
		return pkgPath + "." + name // anonymous function alias @file.go:n
	}
	if !strings.Contains(name, ".") && pkgPath != "" {
		return pkgPath + "." + name
	}
	return name
}

func parseLabeled(rest string) (Clause, error) {
	// "label: expr" ; label is an identifier
	i := strings.Index(rest, ":")
	if i < 0 {
		return Clause{}, fmt.Errorf("clause needs a label: %q", rest)
	}
	label := strings.TrimSpace(rest[:i])
	if !regexp.MustCompile(`^[\w-]+$`).MatchString(label) {
		return Clause{}, fmt.Errorf("bad label %q in %q", label, rest)
	}
	src := strings.TrimSpace(rest[i+1:])
	e, err := ParseCExpr(src)
	if err != nil {
		return Clause{}, err
	}
	return Clause{label, e, src}, nil
}

func parseSpecParams(s string) []SpecParam {
	var out []SpecParam
	for _, it := range strings.Split(s, ",") {
		f := strings.Fields(it)
		if len(f) == 2 {
			out = append(out, SpecParam{f[0], f[1]})
		} else if len(f) == 1 {
			out = append(out, SpecParam{f[0], "int"})
		}
	}
	return out
}

// LoadFile parses one contract file.  pkgPath is the import path identifiers resolve in ("" for extern files
// that use fully qualified names; such files may switch with "//@ props" ignored).
func (cs *Contracts) LoadFile(path, pkgPath string) error {
	lines, _, err := readContractLines(path)
	if err != nil {
		return err
	}
	cs.Sources = append(cs.Sources, path)
	var cur *Contract
	var curLoop *LoopSpec
	var curLemma *Lemma
	fail := func(l cline, f string, a ...interface{}) error {
		return fmt.Errorf("%s:%d: %s", l.file, l.line, fmt.Sprintf(f, a...))
	}
	for _, l := range lines {
		switch l.kw {
		case "ghost":
			f := strings.Fields(l.rest)
			if len(f) != 2 && !(len(f) == 4 && f[2] == "alloc") && !(len(f) == 3 && (f[2] == "local" || f[2] == "stable")) {
				return fail(l, "ghost NAME SORT [alloc TYPE | local]")
			}
			srt := map[string]string{"int": "Int", "bool": "Bool", "object": "Iface", "string": "Str"}[f[1]]
			if srt == "" {
				return fail(l, "ghost sort must be int|bool|object|string")
			}
			g := &Ghost{Name: f[0], Sort: srt}
			if len(f) == 4 {
				g.AllocType = f[3]
			}
			if len(f) == 3 && f[2] == "local" {
				g.Local = true
			}
			if len(f) == 3 && f[2] == "stable" {
				g.Stable = true
			}
			cs.Ghosts[f[0]] = g
			cur, curLoop, curLemma = nil, nil, nil
		case "spec":
			// name(params) ret = body
			i := strings.Index(l.rest, "=")
			// find the '=' that is not part of ==, <=, >=, != : first '=' after the closing paren of params
			depth := 0
			i = -1
			for k, c := range l.rest {
				if c == '(' {
					depth++
				} else if c == ')' {
					depth--
				} else if c == '=' && depth == 0 {
					i = k
					break
				}
			}
			if i < 0 {
				return fail(l, "spec needs '='")
			}
			hdr := strings.TrimSpace(l.rest[:i])
			m := regexp.MustCompile(`^(\w+)\s*\(([^)]*)\)\s*([\w*.]+)$`).FindStringSubmatch(hdr)
			if m == nil {
				return fail(l, "bad spec header %q", hdr)
			}
			body, err := ParseCExpr(strings.TrimSpace(l.rest[i+1:]))
			if err != nil {
				return fail(l, "%v", err)
			}
			cs.Specs[m[1]] = &SpecMacro{Name: m[1], Pkg: pkgPath, Params: parseSpecParams(m[2]), Ret: m[3], Body: body}
			cur, curLoop, curLemma = nil, nil, nil
		case "allow-global-write":
			f := strings.Fields(l.rest)
			if len(f) > 0 {
				cs.AllowGlobalWrite = append(cs.AllowGlobalWrite, ImmutDecl{pkgPath, f[0]})
			}
			cur, curLoop, curLemma = nil, nil, nil
		case "elemptr":
			for _, f := range strings.Fields(l.rest) {
				cs.ElemPtr = append(cs.ElemPtr, ImmutDecl{pkgPath, f})
			}
			cur, curLoop, curLemma = nil, nil, nil
		case "immutable":
			rest := strings.TrimSpace(l.rest)
			if strings.HasPrefix(rest, "ghost ") {
				cs.Immutable = append(cs.Immutable, ImmutDecl{pkgPath, rest})
			} else {
				for _, f := range strings.Fields(rest) {
					cs.Immutable = append(cs.Immutable, ImmutDecl{pkgPath, f})
				}
			}
			cur, curLoop, curLemma = nil, nil, nil
		case "global-invariant":
			c, err := parseLabeled(l.rest)
			if err != nil {
				return fail(l, "%v", err)
			}
			cs.GInvs = append(cs.GInvs, &GlobalInv{c.Label, pkgPath, c.E})
			cur, curLoop, curLemma = nil, nil, nil
		case "lemma":
			m := regexp.MustCompile(`^([\w-]+)\s*\(([^)]*)\)$`).FindStringSubmatch(l.rest)
			if m == nil {
				return fail(l, "bad lemma header %q", l.rest)
			}
			curLemma = &Lemma{Name: m[1], Pkg: pkgPath, Vars: parseSpecParams(m[2])}
			cs.Lemmas = append(cs.Lemmas, curLemma)
			cur, curLoop = nil, nil
		case "assume", "show":
			if curLemma == nil {
				return fail(l, "%s outside lemma", l.kw)
			}
			c, err := parseLabeled(l.rest)
			if err != nil {
				return fail(l, "%v", err)
			}
			if l.kw == "assume" {
				curLemma.Hyps = append(curLemma.Hyps, c)
			} else {
				curLemma.Goal = append(curLemma.Goal, c)
			}
		case "func", "extern", "iface":
			rest := l.rest
			ext := l.kw == "extern"
			if ext {
				rest = strings.TrimSpace(strings.TrimPrefix(rest, "func"))
			}
			m := reFuncHdr.FindStringSubmatch(rest)
			if m == nil {
				return fail(l, "bad function header %q", rest)
			}
			key := qualify(m[1], pkgPath)
			if l.kw == "iface" && !strings.Contains(m[1], "/") && pkgPath != "" {
				key = pkgPath + "." + strings.ReplaceAll(m[1], " ", "")
			}
			cur = &Contract{Key: key, Pkg: pkgPath, File: path, Params: namesOf(m[2]), Results: namesOf(m[3]), Extern: ext, Trusted: ext,
				Iface: l.kw == "iface", Loops: map[int]*LoopSpec{}}
			if _, dup := cs.Funcs[key]; dup {
				return fail(l, "duplicate contract for %s", key)
			}
			cs.Funcs[key] = cur
			curLoop, curLemma = nil, nil
		case "step":
			c, err := parseLabeled(l.rest)
			if err != nil {
				return fail(l, "%v", err)
			}
			if curLoop == nil {
				return fail(l, "step outside loop")
			}
			curLoop.Steps = append(curLoop.Steps, c)
		case "callsite":
			if cur == nil {
				return fail(l, "callsite outside function")
			}
			f := strings.SplitN(strings.TrimSpace(l.rest), " ", 2)
			if len(f) != 2 {
				return fail(l, "callsite CALLEE label: expr")
			}
			cl, err := parseLabeled(f[1])
			if err != nil {
				return fail(l, "%v", err)
			}
			cur.CallSites = append(cur.CallSites, CallSiteClause{f[0], cl})
		case "traced":
			if cur == nil {
				return fail(l, "traced outside function")
			}
			n, err := strconv.Atoi(strings.TrimSpace(l.rest))
			if err != nil || n <= 0 {
				return fail(l, "traced needs a positive id")
			}
			cur.Traced = n
		case "panics":
			c, err := parseLabeled(l.rest)
			if err != nil {
				return fail(l, "%v", err)
			}
			if cur == nil {
				return fail(l, "panics outside function")
			}
			cur.Panics = append(cur.Panics, c)
		case "requires", "ensures", "invariant":
			c, err := parseLabeled(l.rest)
			if err != nil {
				return fail(l, "%v", err)
			}
			if cur == nil {
				return fail(l, "%s outside function", l.kw)
			}
			switch l.kw {
			case "requires":
				cur.Requires = append(cur.Requires, c)
			case "ensures":
				cur.Ensures = append(cur.Ensures, c)
			case "invariant":
				if curLoop == nil {
					return fail(l, "invariant outside loop")
				}
				curLoop.Invs = append(curLoop.Invs, c)
			}
		case "decreases":
			if curLoop == nil {
				return fail(l, "decreases outside loop")
			}
			e, err := ParseCExpr(l.rest)
			if err != nil {
				return fail(l, "%v", err)
			}
			curLoop.Decreases = e
		case "pureifmods":
			if cur == nil {
				return fail(l, "pureifmods outside function")
			}
			for _, part := range splitTop(l.rest) {
				e, err := ParseCExpr(part)
				if err != nil {
					return fail(l, "%v", err)
				}
				cur.PureMods = append(cur.PureMods, e)
			}
		case "modifies", "loopmodifies":
			if cur == nil {
				return fail(l, "modifies outside function")
			}
			if strings.TrimSpace(l.rest) == "*" {
				cur.ModAll = true
				continue
			}
			for _, part := range splitTop(l.rest) {
				e, err := ParseCExpr(part)
				if err != nil {
					return fail(l, "%v", err)
				}
				if l.kw == "loopmodifies" {
					if curLoop == nil {
						return fail(l, "loopmodifies outside loop")
					}
					curLoop.Modifies = append(curLoop.Modifies, e)
				} else {
					cur.Modifies = append(cur.Modifies, e)
				}
			}
		case "pure", "trusted", "inline", "noinline", "abstractfloat":
			if cur == nil {
				return fail(l, "%s outside function", l.kw)
			}
			switch l.kw {
			case "pure":
				cur.Pure = true
			case "trusted":
				cur.Trusted = true
			case "inline":
				cur.Inline = true
			case "noinline":
				cur.NoInline = true
			case "abstractfloat":
				cur.AbstractFloat = true
			}
		case "protects":
			if cur == nil {
				return fail(l, "protects outside function")
			}
			for _, part := range splitTop(l.rest) {
				pe, err := ParseCExpr(part)
				if err != nil {
					return fail(l, "%v", err)
				}
				cur.Protects = append(cur.Protects, pe)
			}
		case "pureif":
			if cur == nil {
				return fail(l, "pureif outside function")
			}
			pe, err := ParseCExpr(l.rest)
			if err != nil {
				return fail(l, "%v", err)
			}
			cur.PureIf = pe
		case "split":
			if cur == nil {
				return fail(l, "split outside function")
			}
			f := strings.Fields(l.rest)
			if len(f) != 3 {
				return fail(l, "split EXPR LO HI")
			}
			ve, err := ParseCExpr(f[0])
			if err != nil {
				return fail(l, "%v", err)
			}
			lo, _ := strconv.ParseInt(f[1], 10, 64)
			hi, _ := strconv.ParseInt(f[2], 10, 64)
			cur.Splits = append(cur.Splits, SplitSpec{ve, lo, hi})
		case "props":
			if cur != nil {
				cur.Props = strings.Fields(strings.ReplaceAll(l.rest, ",", " "))
			}
		case "loop":
			if cur == nil {
				return fail(l, "loop outside function")
			}
			m := regexp.MustCompile(`^(\d+)\s*(?:\(([^)]*)\))?\s*(staged)?$`).FindStringSubmatch(l.rest)
			if m == nil {
				return fail(l, "bad loop header %q", l.rest)
			}
			n, _ := strconv.Atoi(m[1])
			curLoop = &LoopSpec{Ordinal: n, Vars: namesOf(m[2]), Staged: m[3] != ""}
			cur.Loops[n] = curLoop
		}
	}
	return nil
}

func splitTop(s string) []string {
	var out []string
	depth := 0
	start := 0
	for i, c := range s {
		switch c {
		case '(', '[':
			depth++
		case ')', ']':
			depth--
		case ',':
			if depth == 0 {
				out = append(out, strings.TrimSpace(s[start:i]))
				start = i + 1
			}
		}
	}
	if strings.TrimSpace(s[start:]) != "" {
		out = append(out, strings.TrimSpace(s[start:]))
	}
	return out
}

// LoadAll loads /repo/<pkg>/zz_contracts_verif.go for every package directory given plus extern files.
func LoadAllContracts(repo string, pkgDirs map[string]string, externDir string) (*Contracts, error) {
	cs := NewContracts()
	ext, _ := filepath.Glob(filepath.Join(externDir, "*.gvc"))
	sort.Strings(ext)
	for _, f := range ext {
		if err := cs.LoadFile(f, ""); err != nil {
			return nil, err
		}
	}
	var dirs []string
	for d := range pkgDirs {
		dirs = append(dirs, d)
	}
	sort.Strings(dirs)
	for _, d := range dirs {
		files, _ := filepath.Glob(filepath.Join(d, "zz_contracts*_verif.go"))
		sort.Strings(files)
		for _, f := range files {
			if err := cs.LoadFile(f, pkgDirs[d]); err != nil {
				return nil, err
			}
		}
	}
	return cs, nil
}
