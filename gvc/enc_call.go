package main

import (
	"fmt"
	"go/constant"
	"os"
	"go/types"
	"sort"
	"strings"

	"golang.org/x/tools/go/ssa"
)

func (e *Enc) setResults(fr *Frame, v ssa.Value, sig *types.Signature, rs []Term) {
	if v == nil {
		return
	}
	switch sig.Results().Len() {
	case 0:
	case 1:
		fr.vals[v] = rs[0]
	default:
		fr.tuples[v] = rs
	}
}

func (e *Enc) freshResults(prefix string, sig *types.Signature, st *State, reach Term) []Term {
	var rs []Term
	for i := 0; i < sig.Results().Len(); i++ {
		rs = append(rs, e.freshTyped(fmt.Sprintf("%s_r%d", prefix, i), sig.Results().At(i).Type(), reach, st))
	}
	return rs
}

func (e *Enc) call(fr *Frame, v *ssa.Call, cc *ssa.CallCommon, st *State, reach Term, pos string) {
	// a pointer to a struct-valued field of a heap object handed to a callee under contract: the callee's contract reads
	// the pointee through the field heaps of the pointee's type, while this function keeps it by value inside the
	// enclosing object - copy the current value to the pointee's field heaps first (the two views agree at the call)
	saved := map[string]Term{}
	pureCallee := false
	if callee := cc.StaticCallee(); callee != nil && e.w.CS.Funcs[funcKeyOf(callee)] != nil && e.w.CS.Funcs[funcKeyOf(callee)].Pure {
		// (only for callees proved pure: the copies are dropped again below; for other callees the field is havocked
		// after the call as before)
		pureCallee = true
		for _, a := range cc.Args {
			ad, ok := fr.addrs[a]
			if !ok || ad.kind != AField || ad.typ == nil {
				continue
			}
			if _, isStruct := e.structs[ad.sort]; !isStruct {
				continue
			}
			if _, isS := ad.typ.Underlying().(*types.Struct); !isS || e.isElemPtrType(ad.typ) {
				continue
			}
			if u, ok := ad.typ.Underlying().(*types.Struct); ok {
				for i := 0; i < u.NumFields(); i++ {
					key, _, _ := e.fieldKey(ad.typ, i)
					if _, done := saved[key]; !done {
						saved[key] = e.heapGet(st, key)
					}
				}
			}
			e.storeTo(st, &Addr{kind: AStructPtr, ref: e.val(fr, a), typ: ad.typ, sort: ad.sort}, e.load(st, ad))
		}
	}
	e.callInner(fr, v, cc, st, reach, pos)
	if pureCallee {
		// nothing was written: drop the copies again so that they do not count as modifications of this function
		for key, h := range saved {
			e.heapSet(st, key, h)
		}
	}
	// a pointer to a struct-valued field (or to an element of such a value) handed to the callee: the callee may
	// write through it, and the model keeps that memory by value in the enclosing object, so it is havocked here
	if _, isBuiltin := cc.Value.(*ssa.Builtin); isBuiltin {
		return
	}
	if callee := cc.StaticCallee(); callee != nil {
		if c := e.w.CS.Funcs[funcKeyOf(callee)]; c != nil && c.Pure {
			return // a callee proved pure writes nothing, also not through an interior pointer
		}
	}
	for _, a := range cc.Args {
		ad, ok := fr.addrs[a]
		if !ok {
			continue
		}
		if ad.kind != AField && ad.kind != ASub {
			continue
		}
		if _, isStruct := e.structs[ad.sort]; !isStruct {
			continue
		}
		e.storeTo(st, ad, e.freshTyped("escaped", ad.typ, reach, st))
		e.noteAssume("interior pointer to a struct-valued field passed to a call in " + fr.fn.Name() + ": field contents havocked after the call")
	}
}

// callSiteClauses: assertions of the function under proof about its own locals at a call of the named callee.
func (e *Enc) callSiteClauses(fr *Frame, v *ssa.Call, cc *ssa.CallCommon, st *State, reach Term, pos string) {
	if !fr.isTop || fr.con == nil || len(fr.con.CallSites) == 0 || v == nil {
		return
	}
	name := ""
	if callee := cc.StaticCallee(); callee != nil {
		name = callee.Name()
	} else if g, ok := cc.Value.(*ssa.UnOp); ok {
		if gl, ok := g.X.(*ssa.Global); ok {
			name = gl.Name()
		}
	}
	if name == "" && !cc.IsInvoke() {
		if _, isB := cc.Value.(*ssa.Builtin); !isB {
			// call through a function value: "@dyn#k", k-th such call of the function in source order
			name = fmt.Sprintf("@dyn#%d", dynOrdinal(fr.fn, v))
		}
	}
	long := ""
	if callee := cc.StaticCallee(); callee != nil {
		long = shortFuncName(callee.String())
	}
	if cc.IsInvoke() {
		// interface method: "GetModule" or "py.Context.GetModule"; arg(0) is the receiver
		name = cc.Method.Name()
		long = shortFuncName(ifaceMethodKey(cc))
	}
	for _, cs := range fr.con.CallSites {
		if cs.Callee != name && cs.Callee != long {
			continue
		}
		if e.csHit == nil {
			e.csHit = map[string]bool{}
		}
		e.csHit[cs.Callee+" "+cs.Clause.Label] = true
		env := e.loopEnv(fr, v.Block(), st, nil)
		env.pre = nil
		k := 0
		if cc.IsInvoke() {
			env.vars["$arg0"] = TT{e.val(fr, cc.Value), cc.Value.Type()}
			k = 1
		}
		for _, a := range cc.Args {
			env.vars[fmt.Sprintf("$arg%d", k)] = TT{e.val(fr, a), a.Type()}
			k++
		}
		g, err := env.evalBool(cs.Clause.E)
		if err != nil {
			e.problem("callsite %s %s: %v", cs.Callee, cs.Clause.Label, err)
			continue
		}
		e.oblige(fmt.Sprintf("%s:callsite:%s:%s", e.topName(), cs.Callee, cs.Clause.Label), "ensures", reach, g, pos)
	}
}

// panicSiteClauses: `callsite @panic#k L: e` - an assertion about the value an explicit panic of the function under
// proof is raised with (arg(0)), at the k-th panic statement in source order.
func (e *Enc) panicSiteClauses(fr *Frame, x *ssa.Panic, st *State, reach Term, pos string) {
	if !fr.isTop || fr.con == nil || len(fr.con.CallSites) == 0 {
		return
	}
	var ps []*ssa.Panic
	for _, b := range fr.fn.Blocks {
		for _, ins := range b.Instrs {
			if p, ok := ins.(*ssa.Panic); ok {
				ps = append(ps, p)
			}
		}
	}
	sort.SliceStable(ps, func(i, j int) bool { return ps[i].Pos() < ps[j].Pos() })
	k := 0
	for i, p := range ps {
		if p == x {
			k = i + 1
		}
	}
	name := fmt.Sprintf("@panic#%d", k)
	for _, cs := range fr.con.CallSites {
		if cs.Callee != name && cs.Callee != "@panic" {
			continue
		}
		if e.csHit == nil {
			e.csHit = map[string]bool{}
		}
		e.csHit[cs.Callee+" "+cs.Clause.Label] = true
		env := e.loopEnv(fr, x.Block(), st, nil)
		env.pre = nil
		env.vars["$arg0"] = TT{e.val(fr, x.X), x.X.Type()}
		g, err := env.evalBool(cs.Clause.E)
		if err != nil {
			e.problem("callsite %s %s: %v", cs.Callee, cs.Clause.Label, err)
			continue
		}
		e.oblige(fmt.Sprintf("%s:callsite:%s:%s", e.topName(), name, cs.Clause.Label), "ensures", reach, g, pos)
	}
}

// dynOrdinal: position (from 1, in source order) of a call through a function value among such calls of fn.
func dynOrdinal(fn *ssa.Function, v *ssa.Call) int {
	var calls []*ssa.Call
	for _, b := range fn.Blocks {
		for _, ins := range b.Instrs {
			c, ok := ins.(*ssa.Call)
			if !ok || c.Common().IsInvoke() || c.Common().StaticCallee() != nil {
				continue
			}
			if _, isB := c.Common().Value.(*ssa.Builtin); isB {
				continue
			}
			if g, ok := c.Common().Value.(*ssa.UnOp); ok {
				if _, ok := g.X.(*ssa.Global); ok {
					continue
				}
			}
			calls = append(calls, c)
		}
	}
	sort.SliceStable(calls, func(i, j int) bool { return calls[i].Pos() < calls[j].Pos() })
	for i, c := range calls {
		if c == v {
			return i + 1
		}
	}
	return 0
}

func (e *Enc) callInner(fr *Frame, v *ssa.Call, cc *ssa.CallCommon, st *State, reach Term, pos string) {
	e.callSiteClauses(fr, v, cc, st, reach, pos)
	sig := cc.Signature()
	var res ssa.Value
	if v != nil {
		res = v
	}
	// builtins
	if b, ok := cc.Value.(*ssa.Builtin); ok {
		e.builtin(fr, v, b, cc, st, reach, pos)
		return
	}
	var args []Term
	var argTypes []types.Type
	if cc.IsInvoke() {
		args = append(args, e.val(fr, cc.Value))
		argTypes = append(argTypes, cc.Value.Type())
	}
	for _, a := range cc.Args {
		args = append(args, e.val(fr, a))
		argTypes = append(argTypes, a.Type())
	}

	if cc.IsInvoke() {
		// interface method: contract keyed by "<pkg>.<Iface>.<Method>"
		key := ifaceMethodKey(cc)
		if c := e.w.CS.Funcs[key]; c != nil {
			e.safe(fr, "nilinvoke", reach, not(eq(args[0], Term{"nil_iface", SIface})), pos)
			rs := e.applyContract(fr, c, key, args, argTypes, sig, st, reach, pos)
			e.setResults(fr, res, sig, rs)
			return
		}
		e.safe(fr, "nilinvoke", reach, not(eq(args[0], Term{"nil_iface", SIface})), pos)
		e.havocCall(fr, res, "invoke_"+cc.Method.Name(), sig, st, reach)
		return
	}

	callee := cc.StaticCallee()
	if callee == nil {
		// call through an entry of a package-level table of functions: the contract "<table>_entry" (what every
		// registered function guarantees) stands for the disjunction of the handlers
		if g := tableGlobal(cc.Value); g != nil {
			key := g.String() + "_entry"
			if c := e.w.CS.Funcs[key]; c != nil {
				rs := e.applyContract(fr, c, key, args, argTypes, sig, st, reach, pos)
				e.setResults(fr, res, sig, rs)
				return
			}
		}
		// closure created in this function?
		if mc, ok := cc.Value.(*ssa.MakeClosure); ok {
			fn := mc.Fn.(*ssa.Function)
			if e.canInline(fn, fr) {
				bind := map[*ssa.FreeVar]ssa.Value{}
				for i, fv := range fn.FreeVars {
					bind[fv] = mc.Bindings[i]
				}
				rs := e.inline(fr, fn, args, st, reach, pos, bind)
				e.setResults(fr, res, sig, rs)
				return
			}
		}
		e.havocCall(fr, res, "dyncall", sig, st, reach)
		return
	}
	key := callee.String()
	if key == "(*sync.Once).Do" && len(cc.Args) == 2 {
		if mc, ok := cc.Args[1].(*ssa.MakeClosure); ok {
			e.onceDo(fr, mc, args[0], st, reach, pos)
			return
		}
	}
	if c := e.w.CS.Funcs[key]; c != nil && !c.Inline {
		rs := e.applyContract(fr, c, key, args, argTypes, sig, st, reach, pos)
		e.setResults(fr, res, sig, rs)
		return
	}
	if e.canInline(callee, fr) {
		var bind map[*ssa.FreeVar]ssa.Value
		if mc, ok := cc.Value.(*ssa.MakeClosure); ok {
			bind = map[*ssa.FreeVar]ssa.Value{}
			for i, fv := range callee.FreeVars {
				bind[fv] = mc.Bindings[i]
			}
		}
		rs := e.inline(fr, callee, args, st, reach, pos, bind)
		e.setResults(fr, res, sig, rs)
		return
	}
	e.havocCall(fr, res, callee.Name(), sig, st, reach)
}

func ifaceMethodKey(cc *ssa.CallCommon) string {
	t := cc.Value.Type()
	name := types.TypeString(t, nil)
	return name + "." + cc.Method.Name()
}

func (e *Enc) havocCall(fr *Frame, res ssa.Value, what string, sig *types.Signature, st *State, reach Term) {
	e.havocAllCall(st)
	e.noteAssume("havoc at call to " + what + " in " + fr.fn.Name())
	rs := e.freshResults("hv_"+what, sig, st, reach)
	e.setResults(fr, res, sig, rs)
}

func (e *Enc) noteAssume(s string) {
	for _, x := range e.assumeNote {
		if x == s {
			return
		}
	}
	e.assumeNote = append(e.assumeNote, s)
}

func (e *Enc) canInline(fn *ssa.Function, fr *Frame) bool {
	if fn.Blocks == nil {
		return false
	}
	if fr.depth >= e.maxInline {
		return false
	}
	if c := e.w.CS.Funcs[fn.String()]; c != nil && c.NoInline {
		return false
	}
	for p := fr; p != nil; p = p.parent {
		if p.fn == fn {
			return false
		}
	}
	if fn.Pkg != nil && !strings.HasPrefix(fn.Pkg.Pkg.Path(), repoModule) {
		if c := e.w.CS.Funcs[fn.String()]; c == nil || !c.Inline {
			return false
		}
	}
	n := 0
	for _, b := range fn.Blocks {
		n += len(b.Instrs)
	}
	if c := e.w.CS.Funcs[fn.String()]; c != nil && c.Inline {
		return true
	}
	// loops in inlined helpers need invariants; only loop-free helpers are inlined automatically
	_, isBack := blockOrder(fn)
	if len(isBack) > 0 {
		return false
	}
	return n <= 120
}

func (e *Enc) inline(fr *Frame, fn *ssa.Function, args []Term, st *State, reach Term, pos string, bind map[*ssa.FreeVar]ssa.Value) []Term {
	path := fn.Name()
	if fr.path != "" {
		path = fr.path + "/" + fn.Name()
	}
	sub := e.newFrame(fn, fr, path)
	sub.closureBindings = bind
	exits := e.run(sub, args, st, reach)
	var conds []Term
	var sts []*State
	var rets []*Exit
	for _, ex := range exits {
		if ex.kind == "panic" {
			// explicit panics of inlined callees are exits of the caller
			fr.exits = append(fr.exits, ex)
			continue
		}
		rets = append(rets, ex)
		conds = append(conds, ex.cond)
		sts = append(sts, ex.st)
	}
	sig := fn.Signature
	if len(rets) == 0 {
		// never returns normally
		e.assume(tTrue, not(reach))
		return e.freshResults("noret", sig, st, reach)
	}
	merged := e.mergeStates(conds, sts)
	st.heaps = merged.heaps
	st.base = merged.base
	// the callee returned: one of its return conditions holds
	e.assume(reach, or(conds...))
	var rs []Term
	for i := 0; i < sig.Results().Len(); i++ {
		t := rets[len(rets)-1].results[i]
		for k := len(rets) - 2; k >= 0; k-- {
			t = ite(conds[k], rets[k].results[i], t)
		}
		rs = append(rs, e.def(fmt.Sprintf("%s_ret%d", fn.Name(), i), t))
	}
	return rs
}

// panicExit records the obligation that an explicit panic is unreachable (or satisfies the payload clause).
func (e *Enc) panicExit(fr *Frame, ex *Exit) {
	pf := &Frame{path: ex.path}
	e.safe(pf, "panic", tTrue, not(ex.cond), ex.pos)
}

// ---------------------------------------------------------------- contract application at a call site

func (e *Enc) applyContract(fr *Frame, c *Contract, key string, args []Term, argTypes []types.Type, sig *types.Signature, st *State, reach Term, pos string) []Term {
	env := &CEnv{e: e, vars: map[string]TT{}, cur: st, old: st, pkg: c.Pkg, guard: reach}
	e.usedContracts[key] = true
	// parameter types from the callee's signature where available
	var ptypes []types.Type
	if fn := e.w.Funcs[key]; fn != nil {
		for _, p := range fn.Params {
			ptypes = append(ptypes, p.Type())
		}
	} else {
		ptypes = argTypes
	}
	if len(c.Params) != len(args) {
		e.problem("contract %s: %d parameter names for %d arguments", key, len(c.Params), len(args))
	}
	for i, n := range c.Params {
		if i < len(args) {
			t := argTypes[i]
			if i < len(ptypes) {
				t = ptypes[i]
			}
			env.vars[n] = TT{args[i], t}
		}
	}
	short := shortFuncName(key)
	e.counters["call:"+short]++
	k := e.counters["call:"+short]
	// implicit: pointer receivers are non-nil
	if fn := e.w.Funcs[key]; fn != nil && fn.Signature.Recv() != nil {
		if _, isPtr := fn.Signature.Recv().Type().Underlying().(*types.Pointer); isPtr && len(args) > 0 {
			name := fmt.Sprintf("%s:call:%s#%d:recv-nonnil", e.topName(), short, k)
			g := T(SBool, "(not (= %s 0))", args[0].S)
			e.oblige(name, "requires", reach, g, pos)
			e.assume(reach, g)
		}
	}
	for _, rq := range c.Requires {
		g, err := env.evalBool(rq.E)
		if err != nil {
			e.problem("contract %s requires %s: %v", key, rq.Label, err)
			continue
		}
		name := fmt.Sprintf("%s:call:%s#%d:%s", e.topName(), short, k, rq.Label)
		e.oblige(name, "requires", reach, g, pos)
		e.assume(reach, g)
	}
	pre := st.clone()
	var pureCond Term
	if c.PureIf != nil {
		pc, err := env.evalBool(c.PureIf)
		if err != nil {
			e.problem("contract %s pureif: %v", key, err)
		} else {
			pureCond = e.def("pureif", pc)
		}
	}
	if c.ModAll {
		e.havocAllCall(st)
	}
	for _, m := range c.Modifies {
		if err := env.havocTarget(m, pre, st); err != nil {
			e.problem("contract %s modifies %s: %v", key, m, err)
		}
	}
	if pureCond.S != "" {
		// conditional frame: under pureCond nothing is modified
		pureSt := pre
		if len(c.PureMods) > 0 {
			// conditional frame with exceptions (pureifmods): under pureCond exactly these targets may change
			pureSt = pre.clone()
			for _, m := range c.PureMods {
				if err := env.havocTarget(m, pre, pureSt); err != nil {
					e.problem("contract %s pureifmods %s: %v", key, m, err)
				}
			}
		}
		m := e.mergeStates([]Term{pureCond, not(pureCond)}, []*State{pureSt, st})
		st.heaps, st.base = m.heaps, m.base
	}
	if !c.Pure {
		// may allocate
		a := e.heapGet(st, e.allocKey())
		na := e.fresh("alloc", SInt)
		e.assume(tTrue, T(SBool, "(>= %s %s)", na.S, a.S))
		st.heaps["$alloc"] = na
	}
	rs := e.freshResults("c_"+mangle(short), sig, st, reach)
	post := &CEnv{e: e, vars: map[string]TT{}, cur: st, old: pre, pkg: c.Pkg, guard: reach}
	for n, v := range env.vars {
		post.vars[n] = v
	}
	for i, n := range c.Results {
		if i < len(rs) {
			post.vars[n] = TT{rs[i], sig.Results().At(i).Type()}
		}
	}
	for _, en := range c.Ensures {
		g, err := post.evalBool(en.E)
		if err != nil {
			e.problem("contract %s ensures %s: %v", key, en.Label, err)
			continue
		}
		e.assume(reach, g)
	}
	if c.Traced > 0 && e.w.CS.Ghosts["opid"] != nil && e.w.CS.Ghosts["opcall"] != nil {
		// call trace of the caller (ghost instrumentation of the call site): which traced operation was called last,
		// with which arguments, and what it returned
		ik, _ := e.ghostKey("opid")
		ck, _ := e.ghostKey("opcall")
		e.heapSet(st, ik, store(e.heapGet(st, ik), Term{"0", SInt}, intLit64(int64(c.Traced))))
		h := e.heapGet(st, ck)
		n := 0
		for i, a := range args {
			if a.Sort == SIface && n < 3 {
				h = store(h, intLit64(int64(n)), a)
				n++
			}
			_ = i
		}
		if len(rs) > 0 && rs[0].Sort == SIface {
			h = store(h, Term{"3", SInt}, rs[0])
		}
		e.heapSet(st, ck, h)
		if len(rs) > 0 && rs[0].Sort == SInt && e.w.CS.Ghosts["opres"] != nil {
			// a result that is a pointer, a map or an integer: opres[id] is the last such result of operation id
			rk, _ := e.ghostKey("opres")
			e.heapSet(st, rk, store(e.heapGet(st, rk), intLit64(int64(c.Traced)), rs[0]))
		}
		if e.w.CS.Ghosts["opat"] != nil {
			// sequence numbers: opat[0] counts traced calls, opat[id] is the number of the last call of operation id
			ak, _ := e.ghostKey("opat")
			ah := e.heapGet(st, ak)
			n := e.def("opseq", T(SInt, "(+ (select %s 0) 1)", ah.S))
			e.heapSet(st, ak, store(store(ah, Term{"0", SInt}, n), intLit64(int64(c.Traced)), n))
		}
		if e.w.CS.Ghosts["opcnt"] != nil {
			// opcnt[id]: how often operation id was called by this activation
			nk, _ := e.ghostKey("opcnt")
			nh := e.heapGet(st, nk)
			id := intLit64(int64(c.Traced))
			e.heapSet(st, nk, store(nh, id, T(SInt, "(+ (select %s %s) 1)", nh.S, id.S)))
		}
	}
	return rs
}

// ---------------------------------------------------------------- builtins

func (e *Enc) builtin(fr *Frame, v *ssa.Call, b *ssa.Builtin, cc *ssa.CallCommon, st *State, reach Term, pos string) {
	switch b.Name() {
	case "len":
		x := e.val(fr, cc.Args[0])
		switch x.Sort {
		case SStr:
			e.setVal(fr, v, T(SInt, "(str_len %s)", x.S))
		case SSlice:
			e.setVal(fr, v, T(SInt, "(s_len %s)", x.S))
		default:
			if mt, ok := cc.Args[0].Type().Underlying().(*types.Map); ok {
				_, _, lk, _, _ := e.mapKeys(mt)
				r := e.def(v.Name()+fr.suffix, T(SInt, "(ite (= %s 0) 0 (select %s %s))", x.S, e.heapGet(st, lk).S, x.S))
				e.assume(tTrue, T(SBool, "(and (>= %s 0) (<= %s 1099511627776))", r.S, r.S)) // no map with more than 2^40 entries exists (same assumption as for slices)
				fr.vals[v] = r
				return
			}
			if at, ok := cc.Args[0].Type().Underlying().(*types.Array); ok {
				fr.vals[v] = intLit64(at.Len())
				return
			}
			e.problem("len of %s", cc.Args[0].Type())
			fr.vals[v] = e.freshTyped("len", v.Type(), reach, st)
		}
	case "cap":
		x := e.val(fr, cc.Args[0])
		if x.Sort == SSlice {
			e.setVal(fr, v, T(SInt, "(s_cap %s)", x.S))
		} else {
			fr.vals[v] = e.freshTyped("cap", v.Type(), reach, st)
		}
	case "append":
		e.appendOp(fr, v, cc, st, reach, pos)
	case "copy":
		e.copyOp(fr, v, cc, st, reach)
	case "delete":
		mt := cc.Args[0].Type().Underlying().(*types.Map)
		m, k := e.val(fr, cc.Args[0]), e.val(fr, cc.Args[1])
		dk, _, lk, ks, _ := e.mapKeys(mt)
		d := e.heapGet(st, dk)
		was := e.def("was", T(SBool, "(and (not (= %s 0)) (select (select %s %s) %s))", m.S, d.S, m.S, k.S))
		e.heapSet(st, dk, ite(eq(m, Term{"0", SInt}), d, store(d, m, store(sel(d, m, arraySort(ks, SBool)), k, tFalse))))
		l := e.heapGet(st, lk)
		e.heapSet(st, lk, store(l, m, T(SInt, "(- (select %s %s) (ite %s 1 0))", l.S, m.S, was.S)))
	case "print", "println":
	case "recover":
		fr.vals[v] = e.freshTyped("recover", v.Type(), reach, st)
	case "close":
		if e.w.CS.Ghosts["chclosed"] != nil {
			key, srt := e.ghostKey("chclosed")
			ch := e.val(fr, cc.Args[0])
			e.safe(fr, "close", reach, and(not(eq(ch, Term{"0", SInt})), not(sel(e.heapGet(st, key), ch, srt))), pos)
			e.heapSet(st, key, store(e.heapGet(st, key), ch, tTrue))
		} else {
			e.noteAssume("close(chan) not modelled in " + fr.fn.Name())
		}
	case "min", "max":
		a, b2 := e.val(fr, cc.Args[0]), e.val(fr, cc.Args[1])
		if a.Sort == SInt {
			if b.Name() == "min" {
				e.setVal(fr, v, T(SInt, "(ite (<= %s %s) %s %s)", a.S, b2.S, a.S, b2.S))
			} else {
				e.setVal(fr, v, T(SInt, "(ite (>= %s %s) %s %s)", a.S, b2.S, a.S, b2.S))
			}
			return
		}
		fr.vals[v] = e.freshTyped("minmax", v.Type(), reach, st)
	case "real", "imag", "complex":
		fr.vals[v] = e.freshTyped(b.Name(), v.Type(), reach, st)
	default:
		e.problem("%s: unsupported builtin %s", fr.fn.Name(), b.Name())
		if v != nil && v.Type() != nil {
			if tup, ok := v.Type().(*types.Tuple); !ok || tup.Len() > 0 {
				fr.vals[v] = e.freshTyped("builtin", v.Type(), reach, st)
			}
		}
	}
}

func (e *Enc) appendOp(fr *Frame, v *ssa.Call, cc *ssa.CallCommon, st *State, reach Term, pos string) {
	s := e.val(fr, cc.Args[0])
	el := v.Type().Underlying().(*types.Slice).Elem()
	es := e.sortOf(el)
	mk := e.memKey(es)
	var n Term
	var srcArr, srcOff Term
	arg1 := e.val(fr, cc.Args[1])
	isStr := arg1.Sort == SStr
	if isStr {
		n = T(SInt, "(str_len %s)", arg1.S)
	} else {
		n = T(SInt, "(s_len %s)", arg1.S)
		srcArr = T(SInt, "(s_arr %s)", arg1.S)
		srcOff = T(SInt, "(s_off %s)", arg1.S)
	}
	mem := e.heapGet(st, mk)
	inner := arraySort(SInt, es)
	newLen := e.def("applen", T(SInt, "(+ (s_len %s) %s)", s.S, n.S))
	fits := e.def("appfits", T(SBool, "(<= %s (s_cap %s))", newLen.S, s.S))
	// destination array: in place or fresh
	fresh := e.allocRef(st, reach)
	newCap := e.fresh("appcap", SInt)
	e.assume(tTrue, T(SBool, "(>= %s %s)", newCap.S, newLen.S))
	// growth beyond the runtime's maximum allocation is an out-of-memory abort, excluded by "allocation never fails"
	e.assume(tTrue, T(SBool, "(<= %s %d)", newCap.S, maxExisting(el)))
	dstArr := e.def("apparr", ite(fits, T(SInt, "(s_arr %s)", s.S), fresh))
	dstOff := e.def("appoff", ite(fits, T(SInt, "(s_off %s)", s.S), Term{"0", SInt}))
	res := e.def(v.Name()+fr.suffix, T(SSlice, "(mk_slice %s %s %s %s)", dstArr.S, dstOff.S, newLen.S, ite(fits, T(SInt, "(s_cap %s)", s.S), newCap).S))
	fr.vals[v] = res
	// contents: new inner array A' with
	//   A'[dstOff + k] = old s[k]               for 0 <= k < len(s)
	//   A'[dstOff + len(s) + k] = src[k]        for 0 <= k < n
	//   other indices: unchanged (in place) / unconstrained (fresh)
	na := e.fresh("apparrv", inner)
	oldS := sel(mem, T(SInt, "(s_arr %s)", s.S), inner)
	lo := e.def("applo", T(SInt, "(+ %s (s_len %s))", dstOff.S, s.S))
	// kept prefix: A'[j] = old s[j - dstOff]   for dstOff <= j < dstOff + len(s)
	e.assumeMem(tTrue, T(SBool, "(forall ((j Int)) (! (=> (and (<= %s j) (< j %s)) (= (select %s j) (select %s (+ (s_off %s) (- j %s))))) :pattern ((select %s j))))",
		dstOff.S, lo.S, na.S, oldS.S, s.S, dstOff.S, na.S))
	if !isStr {
		src := sel(mem, srcArr, inner)
		// appended part: A'[j] = src[j - lo]   for lo <= j < lo + n
		e.assumeMem(tTrue, T(SBool, "(forall ((j Int)) (! (=> (and (<= %s j) (< j (+ %s %s))) (= (select %s j) (select %s (+ %s (- j %s))))) :pattern ((select %s j))))",
			lo.S, lo.S, n.S, na.S, src.S, srcOff.S, lo.S, na.S))
	} else {
		e.assumeMem(tTrue, T(SBool, "(forall ((j Int)) (! (=> (and (<= %s j) (< j (+ %s %s))) (= (select %s j) (str_at %s (- j %s)))) :pattern ((select %s j))))",
			lo.S, lo.S, n.S, na.S, arg1.S, lo.S, na.S))
	}
	// in place: everything outside [dstOff, lo + n) is untouched
	e.assumeMem(tTrue, T(SBool, "(=> %s (forall ((j Int)) (! (=> (or (< j %s) (>= j (+ %s %s))) (= (select %s j) (select %s j))) :pattern ((select %s j)))))",
		fits.S, dstOff.S, lo.S, n.S, na.S, oldS.S, na.S))
	e.heapSet(st, mk, store(mem, dstArr, na))
}

func (e *Enc) copyOp(fr *Frame, v *ssa.Call, cc *ssa.CallCommon, st *State, reach Term) {
	dst, src := e.val(fr, cc.Args[0]), e.val(fr, cc.Args[1])
	el := cc.Args[0].Type().Underlying().(*types.Slice).Elem()
	es := e.sortOf(el)
	mk := e.memKey(es)
	inner := arraySort(SInt, es)
	mem := e.heapGet(st, mk)
	var n Term
	if src.Sort == SStr {
		n = e.def("copyn", T(SInt, "(ite (<= (s_len %s) (str_len %s)) (s_len %s) (str_len %s))", dst.S, src.S, dst.S, src.S))
	} else {
		n = e.def("copyn", T(SInt, "(ite (<= (s_len %s) (s_len %s)) (s_len %s) (s_len %s))", dst.S, src.S, dst.S, src.S))
	}
	if v != nil {
		fr.vals[v] = n
	}
	oldD := sel(mem, T(SInt, "(s_arr %s)", dst.S), inner)
	na := e.fresh("copyarr", inner)
	if src.Sort != SStr {
		oldS := sel(mem, T(SInt, "(s_arr %s)", src.S), inner)
		e.assumeMem(tTrue, T(SBool, "(forall ((j Int)) (! (=> (and (<= (s_off %s) j) (< j (+ (s_off %s) %s))) (= (select %s j) (select %s (+ (s_off %s) (- j (s_off %s)))))) :pattern ((select %s j))))",
			dst.S, dst.S, n.S, na.S, oldS.S, src.S, dst.S, na.S))
	} else {
		e.assumeMem(tTrue, T(SBool, "(forall ((j Int)) (! (=> (and (<= (s_off %s) j) (< j (+ (s_off %s) %s))) (= (select %s j) (str_at %s (- j (s_off %s))))) :pattern ((select %s j))))",
			dst.S, dst.S, n.S, na.S, src.S, dst.S, na.S))
	}
	e.assumeMem(tTrue, T(SBool, "(forall ((j Int)) (! (=> (or (< j (s_off %s)) (>= j (+ (s_off %s) %s))) (= (select %s j) (select %s j))) :pattern ((select %s j))))",
		dst.S, dst.S, n.S, na.S, oldD.S, na.S))
	e.heapSet(st, mk, store(mem, T(SInt, "(s_arr %s)", dst.S), na))
}

// ---------------------------------------------------------------- defers

func (e *Enc) runDefers(fr *Frame, st *State, reach Term, pos string) {
	for i := len(fr.defers) - 1; i >= 0; i-- {
		d := fr.defers[i]
		g := and(reach, d.guard)
		if g.S == "false" {
			continue
		}
		// execute the deferred call on a copy and merge
		cp := st.clone()
		e.call(fr, nil, d.call.Common(), cp, g, pos)
		if d.guard.S == reach.S || d.guard.S == "true" {
			st.heaps, st.base = cp.heaps, cp.base
		} else {
			m := e.mergeStates([]Term{d.guard, not(d.guard)}, []*State{cp, st})
			st.heaps, st.base = m.heaps, m.base
		}
	}
}

// ---------------------------------------------------------------- loops

func (e *Enc) loopHeader(fr *Frame, h *ssa.BasicBlock, li *loopInfo, st *State, reach Term) {
	var spec *LoopSpec
	if fr.con != nil {
		spec = fr.con.Loops[li.ordinal]
	}
	if os.Getenv("GVC_DEBUG_LOOPS") != "" {
		var names []string
		for _, ins := range h.Instrs {
			if phi, ok := ins.(*ssa.Phi); ok {
				names = append(names, phi.Comment)
			}
		}
		fmt.Fprintf(os.Stderr, "loop %d of %s: header block %d, vars %v, pos %s\n", li.ordinal, fr.fn.Name(), h.Index, names, e.pos(fr, loopPos(h)))
	}
	lc := &loopCtx{spec: spec, info: li, preSt: st.clone()}
	fr.hdrEnv[h] = lc
	prefix := e.topName()
	if fr.path != "" {
		prefix += "@" + fr.path
	}
	// 1. invariants on entry
	if spec != nil {
		env := e.loopEnv(fr, h, st, nil)
		for _, inv := range spec.Invs {
			g, err := env.evalBool(inv.E)
			if err != nil {
				e.problem("%s loop %d invariant %s: %v", fr.fn.Name(), li.ordinal, inv.Label, err)
				continue
			}
			e.oblige(fmt.Sprintf("%s:loop%d:%s:entry", prefix, li.ordinal, inv.Label), "invariant", reach, g, e.pos(fr, loopPos(h)))
		}
		// header phi variable set must match the spec (detached invariants are reported)
		if len(spec.Vars) > 0 {
			have := map[string]bool{}
			for _, ins := range h.Instrs {
				if phi, ok := ins.(*ssa.Phi); ok {
					have[phi.Comment] = true
				}
			}
			for _, v := range spec.Vars {
				if !have[v] {
					e.problem("%s loop %d: invariant detached (no header variable %q)", fr.fn.Name(), li.ordinal, v)
				}
			}
		}
	} else {
		e.noteAssume(fmt.Sprintf("loop %d of %s has no invariant (state havocked)", li.ordinal, fr.fn.Name()))
	}
	// 2. havoc: header phis and every heap component possibly written in the loop
	for _, ins := range h.Instrs {
		phi, ok := ins.(*ssa.Phi)
		if !ok {
			break
		}
		fr.vals[phi] = e.freshTyped(phi.Name()+"_"+phi.Comment+fr.suffix, phi.Type(), reach, st)
	}
	e.havocLoopHeaps(fr, li, st)
	// 3. assume invariants
	if spec != nil {
		env := e.loopEnv(fr, h, st, nil)
		lc.invLine = map[string]int{}
		for _, inv := range spec.Invs {
			g, err := env.evalBool(inv.E)
			if err == nil {
				n := len(e.lines)
				e.assume(reach, g)
				if len(e.lines) == n+1 {
					lc.invLine[inv.Label] = n
				}
			}
		}
		if spec.Decreases != nil {
			if t, err := env.eval(spec.Decreases); err == nil {
				lc.variant0 = e.def("variant", t.Term)
			}
		}
	}
	lc.entrySt = st.clone()
	if fr.isTop {
		e.loopStart = len(e.lines)
		fr.loopLineStart[h] = len(e.lines)
	}
}

// loopEnv: variables visible to an invariant at header h.  edgeFrom != nil evaluates header phis at the back edge.
func (e *Enc) loopEnv(fr *Frame, h *ssa.BasicBlock, st *State, edgeFrom *ssa.BasicBlock) *CEnv {
	pkg := ""
	if fr.con != nil {
		pkg = fr.con.Pkg
	}
	old := e.entryState
	if old == nil {
		old = st
	}
	env := &CEnv{e: e, vars: map[string]TT{}, cur: st, old: old, pkg: pkg, guard: tTrue}
	if lc := fr.hdrEnv[h]; lc != nil {
		env.pre = lc.preSt
	}
	for name, al := range fr.cellNames {
		a, ok := fr.addrs[al]
		if !ok || a.kind != ACell {
			continue // not encoded yet (allocated after this point)
		}
		if env.cells == nil {
			env.cells = map[string]cellVar{}
		}
		env.cells[name] = cellVar{a.key, a.ref, a.sort, a.typ}
	}
	for _, ins := range h.Instrs {
		if nx, ok := ins.(*ssa.Next); ok && nx.IsString {
			if rng, ok := nx.Iter.(*ssa.Range); ok {
				env.iterKey = e.rangeCountKey(fr, rng)
			}
		}
	}
	rangeOf := func(hb *ssa.BasicBlock) bool {
		for _, ins := range hb.Instrs {
			if nx, ok := ins.(*ssa.Next); ok && !nx.IsString {
				if rng, ok := nx.Iter.(*ssa.Range); ok {
					if _, isMap := rng.X.Type().Underlying().(*types.Map); isMap {
						env.rangeKey, _ = e.rangeSeenKey(fr, rng)
						return true
					}
				}
			}
		}
		return false
	}
	if !rangeOf(h) {
		// a loop nested in a range over a map: visited() refers to the innermost enclosing range
		var best *loopInfo
		for hb, li := range fr.loops {
			if hb != h && li.body[h] && (best == nil || len(li.body) < len(best.body)) {
				save := env.rangeKey
				if rangeOf(hb) {
					best = li
				} else {
					env.rangeKey = save
				}
			}
		}
		if best != nil {
			rangeOf(best.header)
		}
	}
	// parameters (entry values)
	for n, v := range e.paramTerms {
		if fr.isTop {
			env.vars[n] = v
		}
	}
	if !fr.isTop {
		for _, p := range fr.fn.Params {
			env.vars[p.Name()] = TT{e.val(fr, p), p.Type()}
		}
	}
	// named values that dominate the header
	for name, vs := range fr.names {
		var best ssa.Value
		for _, v := range vs {
			var vb *ssa.BasicBlock
			if ins, ok := v.(ssa.Instruction); ok {
				vb = ins.Block()
			}
			if _, isPhi := v.(*ssa.Phi); isPhi && vb == h {
				best = v
				break
			}
			if vb == nil {
				if _, isParam := v.(*ssa.Parameter); isParam && best == nil {
					best = v
				}
				continue
			}
			if vb != h && vb.Dominates(h) {
				if best == nil {
					best = v
				} else if bi, ok := best.(ssa.Instruction); ok && bi.Block() != nil && bi.Block().Dominates(vb) {
					best = v
				} else if _, isParam := best.(*ssa.Parameter); isParam {
					best = v
				}
			}
		}
		if best == nil {
			continue
		}
		if phi, ok := best.(*ssa.Phi); ok && phi.Block() == h && edgeFrom != nil {
			idx := predIndex(h, edgeFrom)
			env.vars[name] = TT{e.val(fr, phi.Edges[idx]), phi.Type()}
			continue
		}
		if t, ok := fr.vals[best]; ok {
			env.vars[name] = TT{t, best.Type()}
		} else if _, isConst := best.(*ssa.Const); isConst {
			env.vars[name] = TT{e.val(fr, best), best.Type()}
		}
	}
	return env
}

func (e *Enc) backEdge(fr *Frame, from, h *ssa.BasicBlock, cond Term, st *State) {
	lc := fr.hdrEnv[h]
	if lc == nil || lc.spec == nil {
		return
	}
	prefix := e.topName()
	if fr.path != "" {
		prefix += "@" + fr.path
	}
	env := e.loopEnv(fr, h, st, from)
	sfx := ""
	if len(lc.info.backs) > 1 {
		for i, b := range lc.info.backs {
			if b == from {
				sfx = fmt.Sprintf("#%d", i+1)
			}
		}
	}
	for _, inv := range lc.spec.Invs {
		g, err := env.evalBool(inv.E)
		if err != nil {
			e.problem("%s loop %d invariant %s (back edge): %v", fr.fn.Name(), lc.info.ordinal, inv.Label, err)
			continue
		}
		o := e.oblige(fmt.Sprintf("%s:loop%d:%s:preserved%s", prefix, lc.info.ordinal, inv.Label, sfx), "invariant", cond, g, e.pos(fr, loopPos(h)))
		if lc.spec.Staged {
			// incremental strengthening: invariant k is inductive relative to invariants 1..k, so the header
			// assumptions of the later ones are left out of its standalone query (fewer assumptions: sound)
			later := false
			for _, other := range lc.spec.Invs {
				if later {
					if n, ok := lc.invLine[other.Label]; ok {
						if o.Skip == nil {
							o.Skip = map[int]bool{}
						}
						o.Skip[n] = true
					}
				}
				if other.Label == inv.Label {
					later = true
				}
			}
		}
	}
	e.stepObligations(fr, h, cond, st, "back"+sfx)
	if lc.spec.Decreases != nil && lc.variant0.S != "" {
		t, err := env.eval(lc.spec.Decreases)
		if err == nil {
			e.oblige(fmt.Sprintf("%s:loop%d:decreases%s", prefix, lc.info.ordinal, sfx), "decreases", cond,
				T(SBool, "(and (>= %s 0) (< %s %s))", lc.variant0.S, t.S, lc.variant0.S), e.pos(fr, loopPos(h)))
		}
	}
}

// havocLoopHeaps replaces every heap component that the loop body may write by a fresh constant.
type memRoot struct {
	val   ssa.Value // slice value defined outside the loop
	ptr   ssa.Value // or: field `field` of *ptr (ptr defined outside the loop, field heap not written in the loop)
	stype types.Type
	field int
}

func (e *Enc) havocLoopHeaps(fr *Frame, li *loopInfo, st *State) {
	keys, all := e.loopWrites(fr, li)
	if all {
		e.havocAll(st)
		// activation-local ghosts survive havocs of callees but not explicit writes in the loop
		for name, g := range e.w.CS.Ghosts {
			if g.Local || g.Stable {
				k, _ := e.ghostKey(name)
				if keys[k] {
					st.heaps[k] = e.fresh("H_"+k+"_loop", e.heapSort[k])
				}
			}
		}
		return
	}
	targets, whole := e.loopMemTargets(fr, li, keys)
	freshOnly := e.loopFreshOnly(fr, li)
	var ks []string
	for k := range keys {
		ks = append(ks, k)
	}
	sort.Strings(ks)
	preHeaps := map[string]Term{}
	for k, v := range st.heaps {
		preHeaps[k] = v
	}
	if _, ok := preHeaps["$alloc"]; !ok {
		preHeaps["$alloc"] = e.heapGet(st, e.allocKey())
	}
	for _, k := range ks {
		old := e.heapGet(st, k)
		if roots, ok := targets[k]; ok && !whole[k] && len(roots) > 0 {
			// only the arrays the loop stores into change
			m := old
			inner := strings.TrimSuffix(strings.TrimPrefix(e.heapSort[k], "(Array Int "), ")")
			for _, r := range roots {
				var sl Term
				if r.val != nil {
					sl = e.val(fr, r.val)
				} else {
					fk, fs, _ := e.fieldKey(r.stype, r.field)
					sl = sel(e.heapGet(st, fk), e.val(fr, r.ptr), fs)
				}
				m = store(m, T(SInt, "(s_arr %s)", sl.S), e.fresh("loop_arr", inner))
			}
			st.heaps[k] = e.def("H_"+k+"_loop", m)
			continue
		}
		n := e.fresh("H_"+k+"_loop", e.heapSort[k])
		if k == "$alloc" {
			e.assume(tTrue, T(SBool, "(>= %s %s)", n.S, old.S))
		}
		if freshOnly[k] {
			// written only through objects allocated inside the loop: objects that existed at loop entry keep their values
			a0 := e.heapGet(&State{heaps: preHeaps, base: st.base}, e.allocKey())
			if fr.isTop && e.entryState != nil {
				a0 = e.heapGet(e.entryState, e.allocKey())
			}
			e.assume(tTrue, T(SBool, "(forall ((lr Int)) (! (=> (< lr %s) (= (select %s lr) (select %s lr))) :pattern ((select %s lr))))", a0.S, n.S, old.S, n.S))
		}
		st.heaps[k] = n
	}
	for _, k := range ks {
		if k != "$alloc" {
			if _, targeted := targets[k]; !targeted || whole[k] {
				e.freshHeapFacts(&State{heaps: st.heaps, base: "\x00loop"}, k, st.heaps[k])
			}
		}
	}
}

// loopMemTargets: for slice memories written only by direct element stores / copy in the loop's own blocks, the
// arrays written (as roots evaluable at the header).  whole[k] is set when some write cannot be attributed.
func (e *Enc) loopMemTargets(fr *Frame, li *loopInfo, keys map[string]bool) (map[string][]memRoot, map[string]bool) {
	targets := map[string][]memRoot{}
	whole := map[string]bool{}
	outside := func(v ssa.Value) bool {
		ins, ok := v.(ssa.Instruction)
		if !ok {
			return true
		}
		return ins.Block() == nil || !li.body[ins.Block()] || (ins.Block() == li.header && false)
	}
	var root func(v ssa.Value, depth int) *memRoot
	root = func(v ssa.Value, depth int) *memRoot {
		if depth > 6 {
			return nil
		}
		if _, isPhi := v.(*ssa.Phi); isPhi {
			if ins := v.(ssa.Instruction); li.body[ins.Block()] {
				return nil
			}
		}
		if outside(v) {
			return &memRoot{val: v}
		}
		switch x := v.(type) {
		case *ssa.Slice:
			if _, isSl := x.X.Type().Underlying().(*types.Slice); isSl {
				return root(x.X, depth+1)
			}
		case *ssa.UnOp:
			if fa, ok := x.X.(*ssa.FieldAddr); ok && outside(fa.X) {
				pt := fa.X.Type().Underlying().(*types.Pointer).Elem()
				fk, _, _ := e.fieldKey(pt, fa.Field)
				if !keys[fk] {
					return &memRoot{ptr: fa.X, stype: pt, field: fa.Field}
				}
			}
		}
		return nil
	}
	add := func(k string, v ssa.Value) {
		if r := root(v, 0); r != nil {
			for _, o := range targets[k] {
				if o.val == r.val && o.ptr == r.ptr && o.field == r.field {
					return
				}
			}
			targets[k] = append(targets[k], *r)
		} else {
			whole[k] = true
		}
	}
	for _, b := range fr.fn.Blocks {
		if !li.body[b] {
			continue
		}
		for _, ins := range b.Instrs {
			switch x := ins.(type) {
			case *ssa.Store:
				if ia, ok := x.Addr.(*ssa.IndexAddr); ok {
					if sl, ok := ia.X.Type().Underlying().(*types.Slice); ok {
						add(e.memKey(e.sortOf(sl.Elem())), ia.X)
						continue
					}
				}
				// other stores: if they may touch a slice memory, it is whole
				tmp := map[string]bool{}
				e.storeKeys(x.Addr, tmp)
				for k := range tmp {
					if strings.HasPrefix(k, "M:") {
						whole[k] = true
					}
				}
			case ssa.CallInstruction:
				cc := x.Common()
				if bi, ok := cc.Value.(*ssa.Builtin); ok {
					switch bi.Name() {
					case "copy":
						add(e.memKey(e.sortOf(cc.Args[0].Type().Underlying().(*types.Slice).Elem())), cc.Args[0])
					case "append":
						whole[e.memKey(e.sortOf(cc.Args[0].Type().Underlying().(*types.Slice).Elem()))] = true
					}
					continue
				}
				// any other call that may write slice memories makes them whole
				sub := map[string]bool{}
				e.callWrites(fr, cc, sub)
				for k := range sub {
					if strings.HasPrefix(k, "M:") || k == "*" {
						if k == "*" {
							for kk := range keys {
								whole[kk] = true
							}
						} else {
							whole[k] = true
						}
					}
				}
			case *ssa.MakeSlice:
				// fresh arrays are zero-initialised by the allocation itself; allocation inside a loop makes the memory whole
				whole[e.memKey(e.sortOf(x.Type().Underlying().(*types.Slice).Elem()))] = true
			case *ssa.Alloc:
				if at, ok := x.Type().Underlying().(*types.Pointer).Elem().Underlying().(*types.Array); ok {
					whole[e.memKey(e.sortOf(at.Elem()))] = true
				}
			case *ssa.Convert:
				if e.sortOf(x.Type()) == SSlice && e.sortOf(x.X.Type()) == SStr {
					whole[e.memKey(SInt)] = true
				}
			}
		}
	}
	return targets, whole
}

// callWrites: heap keys a call may write ("*" = everything), using contracts or a scan of inlinable callees.
func (e *Enc) callWrites(fr *Frame, cc *ssa.CallCommon, keys map[string]bool) {
	var c *Contract
	var callee *ssa.Function
	if cc.IsInvoke() {
		c = e.w.CS.Funcs[ifaceMethodKey(cc)]
	} else if callee = cc.StaticCallee(); callee != nil {
		c = e.w.CS.Funcs[callee.String()]
	}
	switch {
	case c != nil && !c.Inline:
		if c.ModAll {
			keys["*"] = true
		}
		for _, m := range c.Modifies {
			for _, k := range e.modKeys(m, c) {
				keys[k] = true
			}
		}
	case callee != nil && callee.Blocks != nil:
		// conservative: everything the callee's body can write
		li := &loopInfo{body: nil}
		_ = li
		sub, all := e.funcWrites(callee, fr.depth+1)
		if all {
			keys["*"] = true
		}
		for k := range sub {
			keys[k] = true
		}
	default:
		keys["*"] = true
	}
}

func (e *Enc) funcWrites(fn *ssa.Function, depth int) (map[string]bool, bool) {
	fake := &Frame{fn: fn, depth: depth}
	body := map[*ssa.BasicBlock]bool{}
	for _, b := range fn.Blocks {
		body[b] = true
	}
	return e.loopWrites(fake, &loopInfo{body: body})
}

// loopWrites: heap keys possibly written by the loop body (conservative).
func (e *Enc) loopWrites(fr *Frame, li *loopInfo) (map[string]bool, bool) {
	keys := map[string]bool{}
	all := false
	var scanFn func(fn *ssa.Function, blocks map[*ssa.BasicBlock]bool, depth int, seen map[*ssa.Function]bool)
	scanFn = func(fn *ssa.Function, blocks map[*ssa.BasicBlock]bool, depth int, seen map[*ssa.Function]bool) {
		live := liveBlocks(fn)
		for _, b := range fn.Blocks {
			if blocks != nil && !blocks[b] {
				continue
			}
			if !live[b] {
				continue // statically dead (guarded by a constant condition such as `if debugging`)
			}
			for _, ins := range b.Instrs {
				switch x := ins.(type) {
				case *ssa.Store:
					e.storeKeys(x.Addr, keys)
				case *ssa.Next:
					if rng, ok := x.Iter.(*ssa.Range); ok && !x.IsString {
						k, _ := e.rangeSeenKey(&Frame{fn: fn, suffix: fr.suffix}, rng)
						keys[k] = true
					} else if ok && x.IsString {
						keys[e.rangeCountKey(&Frame{fn: fn, suffix: fr.suffix}, rng)] = true
					}
				case *ssa.MapUpdate:
					mt := x.Map.Type().Underlying().(*types.Map)
					dk, vk, lk, _, _ := e.mapKeys(mt)
					keys[dk], keys[vk], keys[lk] = true, true, true
				case *ssa.Alloc, *ssa.MakeSlice, *ssa.MakeMap, *ssa.MakeClosure, *ssa.MakeChan:
					keys[e.allocKey()] = true
					if a, ok := x.(*ssa.Alloc); ok {
						el := a.Type().Underlying().(*types.Pointer).Elem()
						if u, ok := el.Underlying().(*types.Struct); ok {
							for i := 0; i < u.NumFields(); i++ {
								k, _, _ := e.fieldKey(el, i)
								keys[k] = true
							}
						} else if at, ok := el.Underlying().(*types.Array); ok {
							keys[e.memKey(e.sortOf(at.Elem()))] = true
						} else {
							keys[e.cellKey(e.sortOf(el))] = true
						}
					}
					if ms, ok := x.(*ssa.MakeSlice); ok {
						keys[e.memKey(e.sortOf(ms.Type().Underlying().(*types.Slice).Elem()))] = true
					}
					if mm, ok := x.(*ssa.MakeMap); ok {
						dk, vk, lk, _, _ := e.mapKeys(mm.Type().Underlying().(*types.Map))
						keys[dk], keys[vk], keys[lk] = true, true, true
					}
				case *ssa.Convert:
					if e.sortOf(x.Type()) == SSlice && e.sortOf(x.X.Type()) == SStr {
						keys[e.allocKey()] = true
						keys[e.memKey(SInt)] = true
					}
				case ssa.CallInstruction:
					cc := x.Common()
					if b, ok := cc.Value.(*ssa.Builtin); ok {
						switch b.Name() {
						case "append":
							keys[e.allocKey()] = true
							keys[e.memKey(e.sortOf(cc.Args[0].Type().Underlying().(*types.Slice).Elem()))] = true
						case "copy":
							keys[e.memKey(e.sortOf(cc.Args[0].Type().Underlying().(*types.Slice).Elem()))] = true
						case "delete":
							dk, vk, lk, _, _ := e.mapKeys(cc.Args[0].Type().Underlying().(*types.Map))
							keys[dk], keys[vk], keys[lk] = true, true, true
						}
						continue
					}
					var c *Contract
					var callee *ssa.Function
					if cc.IsInvoke() {
						c = e.w.CS.Funcs[ifaceMethodKey(cc)]
					} else if callee = cc.StaticCallee(); callee != nil {
						c = e.w.CS.Funcs[callee.String()]
					}
					switch {
					case c != nil && !c.Inline:
						if c.ModAll {
							all = true
						}
						for _, m := range c.Modifies {
							for _, k := range e.modKeys(m, c) {
								if k == "*" {
									all = true
								} else {
									keys[k] = true
								}
							}
						}
						if !c.Pure {
							keys[e.allocKey()] = true
						}
					case callee != nil && seen[callee] && callee.Blocks != nil:
						// already accounted for
					case callee != nil && callee.Blocks != nil && depth < e.maxInline && !seen[callee] &&
						(strings.HasPrefix(pkgPathOf(callee), repoModule) || (c != nil && c.Inline)):
						seen[callee] = true
						scanFn(callee, nil, depth+1, seen)
					default:
						if os.Getenv("GVC_DEBUG_HAVOC") != "" {
							fmt.Fprintf(os.Stderr, "loop havoc-all caused by call %s in %s\n", cc.String(), fn.Name())
						}
						if mc, ok := cc.Value.(*ssa.MakeClosure); ok && depth < e.maxInline {
							f := mc.Fn.(*ssa.Function)
							if !seen[f] {
								seen[f] = true
								scanFn(f, nil, depth+1, seen)
							}
							continue
						}
						all = true
					}
				}
			}
		}
	}
	scanFn(fr.fn, li.body, fr.depth, map[*ssa.Function]bool{fr.fn: true})
	return keys, all
}

func pkgPathOf(fn *ssa.Function) string {
	if fn.Pkg != nil {
		return fn.Pkg.Pkg.Path()
	}
	if fn.Parent() != nil {
		return pkgPathOf(fn.Parent())
	}
	return ""
}

// storeKeys: heap keys a store through addr may touch (syntactic walk of the address expression).
func (e *Enc) storeKeys(addr ssa.Value, keys map[string]bool) {
	switch a := addr.(type) {
	case *ssa.FieldAddr:
		pt := a.X.Type().Underlying().(*types.Pointer).Elem()
		if e.isElemPtrType(pt) {
			keys[e.memKey(e.sortOf(pt))] = true
			return
		}
		// nested struct values: the outermost heap-resident field is what changes
		if inner, ok := a.X.(*ssa.FieldAddr); ok {
			e.storeKeys(inner, keys)
			return
		}
		if inner, ok := a.X.(*ssa.IndexAddr); ok {
			e.storeKeys(inner, keys)
			return
		}
		k, _, _ := e.fieldKey(pt, a.Field)
		keys[k] = true
	case *ssa.IndexAddr:
		switch u := a.X.Type().Underlying().(type) {
		case *types.Slice:
			keys[e.memKey(e.sortOf(u.Elem()))] = true
		case *types.Pointer:
			e.storeKeys(a.X, keys)
		}
	case *ssa.Global:
		pt := a.Type().(*types.Pointer).Elem()
		keys[e.regHeap("G:"+shortFuncName(a.String()), e.sortOf(pt))] = true
	case *ssa.Alloc:
		el := a.Type().Underlying().(*types.Pointer).Elem()
		if u, ok := el.Underlying().(*types.Struct); ok {
			for i := 0; i < u.NumFields(); i++ {
				k, _, _ := e.fieldKey(el, i)
				keys[k] = true
			}
		} else if at, ok := el.Underlying().(*types.Array); ok {
			keys[e.memKey(e.sortOf(at.Elem()))] = true
		} else {
			keys[e.cellKey(e.sortOf(el))] = true
		}
	default:
		if pt, ok := addr.Type().Underlying().(*types.Pointer); ok {
			el := pt.Elem()
			if u, ok := el.Underlying().(*types.Struct); ok {
				for i := 0; i < u.NumFields(); i++ {
					k, _, _ := e.fieldKey(el, i)
					keys[k] = true
				}
			} else {
				keys[e.cellKey(e.sortOf(el))] = true
			}
		}
	}
}

// onceDo models (*sync.Once).Do(f) for a closure f created in the calling function: f runs iff the ghost flag
// oncedone[o] is false, and the flag is true afterwards.
func (e *Enc) onceDo(fr *Frame, mc *ssa.MakeClosure, once Term, st *State, reach Term, pos string) {
	if e.w.CS.Ghosts["oncedone"] == nil {
		e.problem("sync.Once.Do needs ghost oncedone")
		e.havocAll(st)
		return
	}
	key, srt := e.ghostKey("oncedone")
	done := e.def("oncedone", sel(e.heapGet(st, key), once, srt))
	fn := mc.Fn.(*ssa.Function)
	run := e.def("once_run", and(reach, not(done)))
	cp := st.clone()
	bind := map[*ssa.FreeVar]ssa.Value{}
	for i, fv := range fn.FreeVars {
		bind[fv] = mc.Bindings[i]
	}
	e.inline(fr, fn, nil, cp, run, pos, bind)
	e.heapSet(cp, key, store(e.heapGet(cp, key), once, tTrue))
	m := e.mergeStates([]Term{not(done), done}, []*State{cp, st})
	st.heaps, st.base = m.heaps, m.base
}

// stepObligations: the loop's step clauses on an edge that ends an iteration (guard = edge condition, st = state there).
func (e *Enc) stepObligations(fr *Frame, h *ssa.BasicBlock, guard Term, st *State, tag string) {
	lc := fr.hdrEnv[h]
	if lc == nil || lc.spec == nil || len(lc.spec.Steps) == 0 {
		return
	}
	prefix := e.topName()
	if fr.path != "" {
		prefix += "@" + fr.path
	}
	env := e.loopEnv(fr, h, st, nil)
	env.iter = lc.entrySt
	for _, sc := range lc.spec.Steps {
		g, err := env.evalBool(sc.E)
		if err != nil {
			e.problem("%s loop %d step %s: %v", fr.fn.Name(), lc.info.ordinal, sc.Label, err)
			continue
		}
		name := fmt.Sprintf("%s:loop%d:step:%s:%s", prefix, lc.info.ordinal, sc.Label, tag)
		if strings.HasPrefix(tag, "exit") || strings.HasPrefix(tag, "return") {
			ck := fmt.Sprintf("step:%s:%d:%s:%s", prefix, lc.info.ordinal, sc.Label, strings.SplitN(tag, "-", 2)[0])
			e.counters[ck]++
			name = fmt.Sprintf("%s:loop%d:step:%s:%s#%d", prefix, lc.info.ordinal, sc.Label, strings.SplitN(tag, "-", 2)[0], e.counters[ck])
		}
		e.oblige(name, "invariant", guard, g, e.pos(fr, loopPos(h)))
		if imp, ok := sc.E.(*CBin); ok && imp.Op == "==>" && fr.isTop {
			if a, err := env.evalBool(imp.X); err == nil {
				if e.stepCover == nil {
					e.stepCover = map[string][]Term{}
				}
				ck := fmt.Sprintf("%s:cover:step%d:%s", prefix, lc.info.ordinal, sc.Label)
				e.stepCover[ck] = append(e.stepCover[ck], and(guard, a))
			}
		}
	}
}

func tableGlobal(v ssa.Value) *ssa.Global {
	u, ok := v.(*ssa.UnOp)
	if !ok {
		return nil
	}
	ia, ok := u.X.(*ssa.IndexAddr)
	if !ok {
		return nil
	}
	switch x := ia.X.(type) {
	case *ssa.Global:
		return x
	case *ssa.UnOp:
		if g, ok := x.X.(*ssa.Global); ok {
			return g
		}
	}
	return nil
}

// liveBlocks: blocks reachable from the entry when branches on constant conditions are resolved.
func liveBlocks(fn *ssa.Function) map[*ssa.BasicBlock]bool {
	live := map[*ssa.BasicBlock]bool{}
	if len(fn.Blocks) == 0 {
		return live
	}
	stack := []*ssa.BasicBlock{fn.Blocks[0]}
	if fn.Recover != nil {
		stack = append(stack, fn.Recover)
	}
	for len(stack) > 0 {
		b := stack[len(stack)-1]
		stack = stack[:len(stack)-1]
		if live[b] {
			continue
		}
		live[b] = true
		succs := b.Succs
		if len(b.Instrs) > 0 {
			if iff, ok := b.Instrs[len(b.Instrs)-1].(*ssa.If); ok {
				if c, ok := iff.Cond.(*ssa.Const); ok && c.Value != nil {
					if constant.BoolVal(c.Value) {
						succs = b.Succs[:1]
					} else {
						succs = b.Succs[1:]
					}
				}
			}
		}
		stack = append(stack, succs...)
	}
	return live
}

// loopFreshOnly: field heaps (and cells) that the loop's own blocks write only through objects allocated by an Alloc
// inside the loop (per-iteration temporaries such as a struct copied out of a map).
func (e *Enc) loopFreshOnly(fr *Frame, li *loopInfo) map[string]bool {
	ok := map[string]bool{}
	bad := map[string]bool{}
	inLoopAlloc := func(v ssa.Value) bool {
		a, isA := v.(*ssa.Alloc)
		// for the function under proof any of its own allocations will do: the preserved region is "objects that
		// existed when the function was entered"
		return isA && (li.body[a.Block()] || fr.isTop)
	}
	for _, b := range fr.fn.Blocks {
		if !li.body[b] {
			continue
		}
		for _, ins := range b.Instrs {
			switch x := ins.(type) {
			case *ssa.Store:
				tmp := map[string]bool{}
				e.storeKeys(x.Addr, tmp)
				fresh := false
				switch a := x.Addr.(type) {
				case *ssa.FieldAddr:
					fresh = inLoopAlloc(a.X)
				case *ssa.Alloc:
					fresh = inLoopAlloc(a)
				}
				for k := range tmp {
					if strings.HasPrefix(k, "F:") || strings.HasPrefix(k, "C:") {
						if fresh {
							ok[k] = true
						} else {
							bad[k] = true
						}
					}
				}
			case *ssa.Alloc:
				el := x.Type().Underlying().(*types.Pointer).Elem()
				if u, isS := el.Underlying().(*types.Struct); isS && !e.isElemPtrType(el) {
					for i := 0; i < u.NumFields(); i++ {
						k, _, _ := e.fieldKey(el, i)
						ok[k] = true
					}
				} else if _, isArr := el.Underlying().(*types.Array); !isArr && !e.isElemPtrType(el) {
					ok[e.cellKey(e.sortOf(el))] = true
				}
			case ssa.CallInstruction:
				// calls may write anything their contracts/bodies allow: those keys are not fresh-only
				sub := map[string]bool{}
				e.callWrites(fr, x.Common(), sub)
				for k := range sub {
					bad[k] = true
				}
				if sub["*"] {
					return map[string]bool{}
				}
			}
		}
	}
	for k := range bad {
		delete(ok, k)
	}
	return ok
}
