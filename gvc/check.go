package main

import (
	"encoding/json"
	"fmt"
	"os"
	"path/filepath"
	"sort"
	"strconv"
	"strings"
	"sync"
	"time"
)

type Claims struct {
	Property string            `json:"property"`
	Owned    []string          `json:"owned"`
	NotOwned map[string]string `json:"not_owned"`
}

type PropSpec struct {
	ID       string
	Funcs    []string // short function names
	Include  []string // other properties whose functions are included
	Kinds    map[string]bool
	Labels   map[string]bool // ensures/invariant labels additionally owned (safety-relevant facts of callees)
	Refines  []string // interface-method contract keys whose refinement by implementers is checked
	Lemmas   []string
	Bounded  []string
	Packages []string
}

var defaultKinds = []string{"ensures", "requires", "frame", "invariant", "decreases", "cover", "lemma"}

func loadPropSpec(verif, id string, seen map[string]bool) (*PropSpec, error) {
	if seen[id] {
		return &PropSpec{ID: id, Kinds: map[string]bool{}}, nil
	}
	seen[id] = true
	path := filepath.Join(verif, "claims", id+".funcs")
	data, err := os.ReadFile(path)
	if err != nil {
		return nil, err
	}
	ps := &PropSpec{ID: id, Kinds: map[string]bool{}}
	for _, l := range strings.Split(string(data), "\n") {
		if i := strings.Index(l, "#"); i >= 0 {
			l = l[:i]
		}
		l = strings.TrimSpace(l)
		if l == "" {
			continue
		}
		switch {
		case strings.HasPrefix(l, "kinds:"):
			for _, k := range strings.Fields(strings.TrimPrefix(l, "kinds:")) {
				ps.Kinds[k] = true
			}
		case strings.HasPrefix(l, "labels:"):
			if ps.Labels == nil {
				ps.Labels = map[string]bool{}
			}
			for _, k := range strings.Fields(strings.TrimPrefix(l, "labels:")) {
				ps.Labels[k] = true
			}
		case strings.HasPrefix(l, "include:"):
			ps.Include = append(ps.Include, strings.Fields(strings.TrimPrefix(l, "include:"))...)
		case strings.HasPrefix(l, "refine:"):
			ps.Refines = append(ps.Refines, strings.Fields(strings.TrimPrefix(l, "refine:"))...)
		case strings.HasPrefix(l, "lemma:"):
			ps.Lemmas = append(ps.Lemmas, strings.Fields(strings.TrimPrefix(l, "lemma:"))...)
		case strings.HasPrefix(l, "bounded:"):
			ps.Bounded = append(ps.Bounded, strings.TrimSpace(strings.TrimPrefix(l, "bounded:")))
		default:
			ps.Funcs = append(ps.Funcs, l)
		}
	}
	if len(ps.Kinds) == 0 {
		for _, k := range defaultKinds {
			ps.Kinds[k] = true
		}
	}
	for _, inc := range ps.Include {
		sub, err := loadPropSpec(verif, inc, seen)
		if err != nil {
			continue // property not built yet
		}
		ps.Funcs = append(ps.Funcs, sub.Funcs...)
		ps.Refines = append(ps.Refines, sub.Refines...)
	}
	// dedupe
	sort.Strings(ps.Funcs)
	var out []string
	for i, f := range ps.Funcs {
		if i == 0 || f != ps.Funcs[i-1] {
			out = append(out, f)
		}
	}
	ps.Funcs = out
	return ps, nil
}

type KnownFinding struct {
	Property   string `json:"property"`
	Obligation string `json:"obligation"`
	Region     string `json:"region"` // contract expression over the function's parameters: all failures lie inside
	Witness    string `json:"witness"`
	What       string `json:"what"`
}

type FindingsFile struct {
	Findings []KnownFinding `json:"findings"`
	Fixed    []string       `json:"fixed"`
}

func loadFindings(verif string) *FindingsFile {
	ff := &FindingsFile{}
	data, err := os.ReadFile(filepath.Join(verif, "known_findings.json"))
	if err == nil {
		json.Unmarshal(data, ff)
	}
	return ff
}

type funcRun struct {
	key      string
	short    string
	enc      *Enc
	results  []*Result
	missing  bool
	secs     float64
}

func runCheck(repo, verif, prop, tier, keep string, claim bool) int {
	t0 := time.Now()
	seed, _ := strconv.Atoi(os.Getenv("VERIF_SEED"))
	evPath := filepath.Join(verif, "evidence", prop+".json")
	if noEvidence {
		evPath = filepath.Join(os.TempDir(), fmt.Sprintf("gvc-selftest-%d-%s.json", os.Getpid(), prop))
		defer os.Remove(evPath)
	}
	os.MkdirAll(filepath.Dir(evPath), 0o755)
	os.Remove(evPath)
	fail := func(msg string) int {
		// infrastructure failure: report as a violation of nothing in particular but never exit 0
		rp := writeReplay(verif, prop, "infrastructure", map[string]interface{}{"error": msg})
		fmt.Printf("VIOLATION property=%s replay=%s no-failing-input-found\n", prop, rp)
		fmt.Fprintln(os.Stderr, msg)
		writeEvidence(evPath, prop, tier, seed, nil, nil, 0, 0, time.Since(t0).Seconds(), 1, []string{msg}, nil, nil)
		return 1
	}
	ps, err := loadPropSpec(verif, prop, map[string]bool{})
	if err != nil {
		return fail("cannot read property spec: " + err.Error())
	}
	w, err := LoadWorld(repo, verif, nil)
	if err != nil {
		return fail("cannot load /repo (it must compile): " + err.Error())
	}
	loadSecs := time.Since(t0).Seconds()

	var problemsPre []string
	if !claim && tier == "quick" {
		if data, err := os.ReadFile(filepath.Join(verif, "claims", prop+".json")); err == nil {
			pre := &Claims{}
			if json.Unmarshal(data, pre) == nil {
				ff := loadFindings(verif)
				for n := range pre.NotOwned {
					if matchFinding(ff, prop, n) == nil {
						dontCare[n] = true
					}
				}
			}
		}
	}
	// ---- encode and discharge, in parallel over functions
	runs := make([]*funcRun, len(ps.Funcs))
	var wg sync.WaitGroup
	sem := make(chan struct{}, 12)
	for i, short := range ps.Funcs {
		runs[i] = &funcRun{short: short}
		keys := w.matchFuncs(short)
		var key string
		for _, k := range keys {
			if shortFuncName(k) == short {
				key = k
			}
		}
		if key == "" && strings.Contains(short, ".@") && len(keys) == 1 {
			key = keys[0]
		}
		if key == "" {
			runs[i].missing = true
			continue
		}
		runs[i].key = key
		wg.Add(1)
		go func(r *funcRun) {
			defer wg.Done()
			sem <- struct{}{}
			defer func() { <-sem }()
			defer func() {
				if p := recover(); p != nil {
					r.enc = nil
					fmt.Fprintf(os.Stderr, "encoder panic in %s: %v\n", r.short, p)
				}
			}()
			ft := time.Now()
			e := encodeFunction(w, w.Funcs[r.key], w.CS.Funcs[r.key])
			r.enc = e
			r.results = checkFunction(e, tier, seed, keep)
			r.secs = time.Since(ft).Seconds()
		}(runs[i])
	}
	wg.Wait()

	// ---- lemmas and interface refinements
	lemmaResults := checkLemmas(w, ps, tier, seed)
	var refineAssumed []string
	{
		seenRef := map[string]bool{}
		var rmu sync.Mutex
		var rwg sync.WaitGroup
		for _, rk := range ps.Refines {
			key := rk
			if !strings.Contains(key, "/") {
				key = repoModule + "/" + key
			}
			if seenRef[key] {
				continue
			}
			seenRef[key] = true
			targets, assumed := w.refinementTargets(key)
			if w.CS.Funcs[key] == nil {
				problemsPre = append(problemsPre, "no interface contract "+rk)
			}
			for _, a := range assumed {
				refineAssumed = append(refineAssumed, fmt.Sprintf("interface contract %s assumed for implementer %s (method not under contract)", rk, a))
			}
			for _, rt := range targets {
				rt := rt
				rwg.Add(1)
				go func() {
					defer rwg.Done()
					sem <- struct{}{}
					defer func() { <-sem }()
					defer func() {
						if p := recover(); p != nil {
							fmt.Fprintf(os.Stderr, "refinement encoder panic %s/%s: %v\n", rt.ikey, typeKey(rt.recvT), p)
						}
					}()
					e := encodeRefinement(w, rt)
					rs := checkFunction(e, tier, seed, keep)
					rmu.Lock()
					lemmaResults = append(lemmaResults, rs...)
					for _, p := range e.problems {
						problemsPre = append(problemsPre, "refine "+rt.ikey+": "+p)
					}
					rmu.Unlock()
				}()
			}
		}
		rwg.Wait()
	}

	// ---- collect
	type entry struct {
		r  *Result
		fr *funcRun
	}
	all := map[string]entry{}
	var order []string
	problems := append([]string{}, problemsPre...)
	backend := map[string]int{}
	solverSecs := 0.0
	for _, fr := range runs {
		if fr.missing {
			problems = append(problems, "function not found in /repo: "+fr.short)
			continue
		}
		if fr.enc == nil {
			problems = append(problems, "encoder failed on "+fr.short)
			continue
		}
		for _, p := range fr.enc.problems {
			problems = append(problems, fr.short+": "+p)
		}
		for _, r := range fr.results {
			if !ps.Kinds[r.Ob.Kind] {
				lab := r.Ob.Name[strings.LastIndex(r.Ob.Name, ":")+1:]
				if !(ps.Labels[lab] && (r.Ob.Kind == "ensures" || r.Ob.Kind == "invariant")) {
					continue
				}
			}
			if _, dup := all[r.Ob.Name]; dup {
				continue
			}
			all[r.Ob.Name] = entry{r, fr}
			order = append(order, r.Ob.Name)
		}
	}
	for _, r := range lemmaResults {
		if !ps.Kinds[r.Ob.Kind] {
			continue
		}
		all[r.Ob.Name] = entry{r, nil}
		order = append(order, r.Ob.Name)
	}
	okStatus := func(r *Result) bool {
		if r.Ob.Cover {
			return r.Status == "sat"
		}
		return r.Status == "unsat"
	}

	claimsPath := filepath.Join(verif, "claims", prop+".json")
	if claim {
		cl := &Claims{Property: prop, NotOwned: map[string]string{}}
		for _, n := range order {
			if okStatus(all[n].r) {
				cl.Owned = append(cl.Owned, n)
			} else {
				cl.NotOwned[n] = all[n].r.Status
			}
		}
		sort.Strings(cl.Owned)
		data, _ := json.MarshalIndent(cl, "", " ")
		os.WriteFile(claimsPath, append(data, '\n'), 0o644)
		fmt.Printf("claimed %d obligations for %s (%d not owned)\n", len(cl.Owned), prop, len(cl.NotOwned))
		for n, s := range cl.NotOwned {
			fmt.Printf("  not owned: %s (%s)\n", n, s)
		}
		for _, p := range problems {
			fmt.Printf("  problem: %s\n", p)
		}
		return 0
	}
	cl := &Claims{}
	data, err := os.ReadFile(claimsPath)
	if err != nil {
		return fail("no claims file for " + prop)
	}
	if err := json.Unmarshal(data, cl); err != nil {
		return fail("bad claims file: " + err.Error())
	}
	findings := loadFindings(verif)

	// ---- verdicts
	violations := 0
	discharged := 0
	var samples []interface{}
	var undischarged []interface{}
	var knownPrinted []string
	owned := map[string]bool{}
	for _, n := range cl.Owned {
		owned[n] = true
	}
	report := func(name string, en *entry, reason string) {
		violations++
		info := map[string]interface{}{"property": prop, "obligation": name, "reason": reason}
		confirmed := false
		if en != nil {
			r := en.r
			info["status"] = r.Status
			info["solver"] = r.Solver
			info["solver_output"] = r.Output
			info["position"] = r.Ob.Pos
			info["goal"] = r.Ob.Goal
			if r.Model != nil {
				info["model"] = r.Model
			}
			if en.fr != nil && en.fr.enc != nil {
				info["function"] = en.fr.key
				info["script"] = en.fr.enc.script(r.Ob, true)
				if r.Status == "sat" && r.Model != nil {
					rep := tryReplay(w, en.fr.enc, r)
					info["replay"] = rep
					confirmed = rep.Confirmed
				}
			}
		}
		rp := writeReplay(verif, prop, name, info)
		if confirmed {
			fmt.Printf("VIOLATION property=%s replay=%s\n", prop, rp)
		} else {
			fmt.Printf("VIOLATION property=%s replay=%s no-failing-input-found\n", prop, rp)
		}
		fmt.Fprintf(os.Stderr, "  failed obligation: %s (%s)\n", name, reason)
	}
	for _, n := range cl.Owned {
		en, ok := all[n]
		if !ok {
			report(n, nil, "owned obligation was not generated (function renamed, contract detached or construct left the subset)")
			continue
		}
		if okStatus(en.r) {
			discharged++
			backend[en.r.Solver]++
			solverSecs += en.r.Secs
			if len(samples) < 12 {
				samples = append(samples, map[string]interface{}{"obligation": n, "answer": en.r.Status, "solver": en.r.Solver, "script_lines": en.r.Size, "position": en.r.Ob.Pos})
			}
			continue
		}
		// known finding?
		if kf := matchFinding(findings, prop, n); kf != nil && en.fr != nil {
			if confined(w, en.fr, en.r, kf, tier, seed) {
				line := fmt.Sprintf("KNOWN-FINDING: property=%s %s witness=%s %s", prop, n, kf.Witness, kf.What)
				fmt.Println(line)
				knownPrinted = append(knownPrinted, line)
				discharged++ // discharged outside the recorded region
				continue
			}
		}
		report(n, &en, "owned obligation no longer discharges: solver answered "+en.r.Status)
	}
	// obligations that did not exist when the claims were made
	for _, n := range order {
		if owned[n] {
			continue
		}
		en := all[n]
		if _, known := cl.NotOwned[n]; known {
			if !okStatus(en.r) {
				if kf := matchFinding(findings, prop, n); kf != nil && ((en.fr != nil && confined(w, en.fr, en.r, kf, tier, seed)) || (en.fr == nil && en.r.Solver == "ssa-scan")) {
					line := fmt.Sprintf("KNOWN-FINDING: property=%s %s witness=%s %s", prop, n, kf.Witness, kf.What)
					fmt.Println(line)
					knownPrinted = append(knownPrinted, line)
					continue
				}
				ud := map[string]interface{}{"obligation": n, "answer": en.r.Status}
				if en.r.Solver == "ssa-scan" {
					ud["detail"] = truncate(en.r.Output, 1200)
				}
				undischarged = append(undischarged, ud)
			}
			continue
		}
		if !okStatus(en.r) {
			if kf := matchFinding(findings, prop, n); kf != nil && en.fr == nil && en.r.Solver == "ssa-scan" {
				line := fmt.Sprintf("KNOWN-FINDING: property=%s %s witness=%s %s", prop, n, kf.Witness, kf.What)
				fmt.Println(line)
				knownPrinted = append(knownPrinted, line)
				continue
			}
			report(n, &en, "obligation that did not exist on the registered tree fails: solver answered "+en.r.Status)
		}
	}

	// ---- evidence
	var funcs []string
	assume := map[string]bool{}
	for _, fr := range runs {
		if fr.enc != nil {
			funcs = append(funcs, fr.short)
			for _, a := range fr.enc.assumeNote {
				assume[a] = true
			}
		}
	}
	checked := map[string]bool{}
	for _, fr := range runs {
		checked[fr.key] = true
	}
	for _, fr := range runs {
		if fr.enc == nil {
			continue
		}
		for k := range fr.enc.usedContracts {
			if !checked[k] {
				c := w.CS.Funcs[k]
				kind := "contract assumed at call sites, body checked under another property or not at all: "
				if c != nil && c.Extern {
					kind = "trusted external contract: "
				} else if c != nil && c.Iface {
					kind = "interface-method contract (assumed for implementers not under contract): "
				} else if c != nil && c.Trusted {
					kind = "trusted contract (body not checked): "
				}
				assume[kind+shortFuncName(k)] = true
			}
		}
	}
	for _, a := range refineAssumed {
		assume[a] = true
	}
	for _, fr := range runs {
		if fr.enc == nil {
			continue
		}
		for k := range fr.enc.usedAxioms {
			assume["trusted spec axioms (spec/*.smt2) triggered by: "+k] = true
		}
	}
	// modelling assumptions of the encoding itself (DESIGN.md Appendix B), the same for every property
	for _, a := range []string{
		"encoding: Go integers are mathematical integers with explicit wrap-around at their bit width; &, |, ^ are uninterpreted except for masks 2^k-1",
		"encoding: no slice, string or map with more than 2^40 elements exists; allocation never fails; fresh objects differ from all existing ones",
		"encoding: single goroutine; panics of nil dereference, index, slice, division, type assertion, make, nil-map write and uncomparable interface comparison are separate safe:* obligations and are assumed not to happen after the point where they are checked",
		"encoding: defer/recover, channels, select and reflection are not modelled (calls are havoc unless a contract says otherwise)",
	} {
		assume[a] = true
	}
	var assumptions []string
	for a := range assume {
		assumptions = append(assumptions, a)
	}
	sort.Strings(assumptions)
	extra := map[string]interface{}{
		"functions_under_contract": funcs,
		"backends":                 backend,
		"solver_seconds":           solverSecs,
		"load_seconds":             loadSecs,
		"undischarged_not_claimed": undischarged,
		"known_findings_printed":   knownPrinted,
		"encoder_notes":            problems,
		"generated_obligations":    len(order),
	}
	writeEvidence(evPath, prop, tier, seed, samples, extra, len(cl.Owned), discharged, time.Since(t0).Seconds(), violations, assumptions, w, ps)
	fmt.Fprintf(os.Stderr, "%s %s: %d/%d owned obligations discharged, %d generated, %d violations, %.1fs\n", prop, tier, discharged, len(cl.Owned), len(order), violations, time.Since(t0).Seconds())
	if violations > 0 {
		return 1
	}
	return 0
}

func matchFinding(ff *FindingsFile, prop, ob string) *KnownFinding {
	for i := range ff.Findings {
		if ff.Findings[i].Obligation == ob && (ff.Findings[i].Property == prop || ff.Findings[i].Property == "") {
			return &ff.Findings[i]
		}
	}
	return nil
}

// confined: does the obligation hold outside the recorded region?  (every failure lies inside the region)
func confined(w *World, fr *funcRun, r *Result, kf *KnownFinding, tier string, seed int) bool {
	e := fr.enc
	ce, err := ParseCExpr(kf.Region)
	if err != nil {
		return false
	}
	pkg := ""
	if e.topCon != nil {
		pkg = e.topCon.Pkg
	}
	env := &CEnv{e: e, vars: map[string]TT{}, cur: e.entryState, old: e.entryState, pkg: pkg, guard: tTrue}
	for n, v := range e.paramTerms {
		env.vars[n] = v
	}
	region, err := env.evalBool(ce)
	if err != nil {
		return false
	}
	o2 := *r.Ob
	o2.Goal = or(region, Term{r.Ob.Goal, SBool}).S
	ms := 10000
	if tier == "thorough" {
		ms = 60000
	}
	res := race(e, &o2, ms, seed)
	return res.Status == "unsat"
}

func writeReplay(verif, prop, ob string, info map[string]interface{}) string {
	dir := filepath.Join(verif, "replays", prop)
	if noEvidence {
		dir = filepath.Join(os.TempDir(), fmt.Sprintf("gvc-selftest-replays-%d", os.Getpid()), prop)
	}
	os.MkdirAll(dir, 0o755)
	name := mangle(ob)
	if len(name) > 150 {
		name = name[:150]
	}
	p := filepath.Join(dir, name+".json")
	data, _ := json.MarshalIndent(info, "", " ")
	os.WriteFile(p, data, 0o644)
	return p
}

var trustedBase = []string{
	"golang.org/x/tools/go/ssa v0.29.0 SSA construction and go/types (Go 1.23.5)",
	"gvc VC generator (this repository, /verif/gvc); guarded by the must-fail self-test corpus",
	"SMT solvers z3 5.1.0, z3 4.8.12, cvc5 1.0.3",
	"amd64 integer widths (int = int64)",
	"trusted contracts of external packages in /verif/contracts/*.gvc (math/big as exact integer arithmetic, ...)",
	"global invariants in zz_contracts_verif.go are assumed at function entry (established by package init; no non-init store to those variables, checked by SSA scan)",
	"allocation never fails; Go stack never overflows; typed nil pointers are never boxed into interfaces",
	"bit operations & | ^ on machine integers coincide with the unbounded two's-complement operations of the spec (uninterpreted on both sides)",
}

func writeEvidence(path, prop, tier string, seed int, samples []interface{}, extra map[string]interface{}, obligations, discharged int, wall float64, violations int, assumptions []string, w *World, ps *PropSpec) {
	cov := map[string]interface{}{
		"obligations":   obligations,
		"discharged":    discharged,
		"checker_cmd":   fmt.Sprintf("bin/check %s %s  (gvc: go/ssa -> SMT-LIB; z3-new / z3 / cvc5 raced per obligation)", prop, tier),
		"trusted_base":  trustedBase,
		"samples":       samples,
		"explanation":   "Each obligation is a verification condition generated from the SSA of the real function in /repo under its contract in zz_contracts_verif.go; discharged = solver answered unsat (or sat for cover/vacuity guards).",
	}
	if samples == nil {
		cov["samples"] = []interface{}{}
	}
	for k, v := range extra {
		cov[k] = v
	}
	ev := map[string]interface{}{
		"property_id": prop,
		"tier":        tier,
		"seed":        seed,
		"level":       "proof",
		"coverage":    cov,
		"assumptions": assumptions,
		"wall_s":      wall,
		"violations":  violations,
	}
	if assumptions == nil {
		ev["assumptions"] = []string{}
	}
	data, _ := json.MarshalIndent(ev, "", " ")
	os.WriteFile(path, append(data, '\n'), 0o644)
}
