package main

import (
	"os"
	"fmt"
	"go/constant"
	"go/token"
	"go/types"
	"math/big"
	"sort"
	"strings"

	"golang.org/x/tools/go/ssa"
)

// ---------------------------------------------------------------- addresses

type AddrKind int

const (
	AField AddrKind = iota // field heap at ref
	AElem                  // slice element: mem[arr][idx]
	ACell                  // cell heap at ref
	AGlobal                // mutable global scalar heap
	AConstGlobal           // init-only global: immutable constant
	ASub                   // field idx of a struct value stored at parent
	AArrElem               // element of an array value stored at parent
	AStructPtr             // whole struct through a pointer to struct (ref)
	AArrMem                // array object living in the slice memory M:<elem> at ref (so that it can be sliced)
)

type Addr struct {
	kind   AddrKind
	key    string
	ref    Term
	idx    Term
	sort   string
	typ    types.Type // type of the pointee
	parent *Addr
	field  int
}

type Exit struct {
	kind    string // "return" or "panic"
	cond    Term
	results []Term
	st      *State
	pos     string
	payload Term
	hasPayload bool
	path    string // inline path of the frame the panic is in
}

type deferred struct {
	guard Term
	call  *ssa.Defer
}

type Frame struct {
	fn      *ssa.Function
	vals    map[ssa.Value]Term
	tuples  map[ssa.Value][]Term
	addrs   map[ssa.Value]*Addr
	depth   int
	path    string // inline path for obligation names
	suffix  string
	reach   map[*ssa.BasicBlock]Term
	out     map[*ssa.BasicBlock]*State
	exits   []*Exit
	defers  []deferred
	names   map[string][]ssa.Value // source variable name -> SSA values (from DebugRef)
	cellNames map[string]*ssa.Alloc // locals living in heap cells
	loops   map[*ssa.BasicBlock]*loopInfo
	con     *Contract
	closureBindings map[*ssa.FreeVar]ssa.Value
	parent  *Frame
	hdrEnv  map[*ssa.BasicBlock]*loopCtx
	isTop   bool
	loopLineStart map[*ssa.BasicBlock]int
}

type loopInfo struct {
	header  *ssa.BasicBlock
	body    map[*ssa.BasicBlock]bool
	ordinal int
	backs   []*ssa.BasicBlock
}

type loopCtx struct {
	spec     *LoopSpec
	info     *loopInfo
	entrySt  *State // state at header after havoc
	variant0 Term
	invLine  map[string]int // line index of the header assumption of each invariant (staged loops)
	fnOld    *State
	preSt    *State
}

func (e *Enc) pos(fr *Frame, p token.Pos) string {
	if !p.IsValid() {
		return ""
	}
	ps := e.w.Prog.Fset.Position(p)
	return fmt.Sprintf("%s:%d", strings.TrimPrefix(ps.Filename, e.w.Repo+"/"), ps.Line)
}

// ---------------------------------------------------------------- values

func (e *Enc) val(fr *Frame, v ssa.Value) Term {
	if t, ok := fr.vals[v]; ok {
		return t
	}
	switch x := v.(type) {
	case *ssa.Const:
		return e.constTerm(x)
	case *ssa.Global:
		// address of a global used as a value: opaque non-nil reference
		return e.freshOnce("gaddr_"+mangle(x.String()), SInt)
	case *ssa.Function:
		e.declare(fmt.Sprintf("(declare-const fn_%s Int)", mangle(x.String())))
		e.declare(fmt.Sprintf("(assert (> fn_%s 0))", mangle(x.String())))
		return Term{"fn_" + mangle(x.String()), SInt}
	case *ssa.FreeVar:
		if fr.closureBindings != nil && fr.parent != nil {
			if b, ok := fr.closureBindings[x]; ok {
				return e.val(fr.parent, b)
			}
		}
		t := e.freshTyped("freevar_"+x.Name(), x.Type(), tTrue, nil)
		fr.vals[v] = t
		return t
	case *ssa.Builtin:
		return Term{"0", SInt}
	}
	if a, ok := fr.addrs[v]; ok {
		// an address used as a first-class value
		switch a.kind {
		case ACell, AStructPtr, AArrMem:
			return a.ref
		case AElem:
			if a.typ != nil && e.isElemPtrType(a.typ) {
				return e.elemPtr(a.ref, a.idx)
			}
		case AField:
			// address of a field of a heap object: a stable value, function of the object (used to index ghosts such as
			// the counter of a sync.WaitGroup embedded by value)
			return e.fieldPtr(a.key, a.ref)
		}
		e.problem("%s: interior pointer %s used as a value", fr.fn.Name(), v.Name())
		t := e.fresh("ptr", SInt)
		fr.vals[v] = t
		return t
	}
	e.problem("%s: value %s (%T) used before definition", fr.fn.Name(), v.Name(), v)
	t := e.fresh("undef_"+v.Name(), e.sortOf(v.Type()))
	fr.vals[v] = t
	return t
}

func (e *Enc) constTerm(c *ssa.Const) Term {
	t := c.Type()
	s := e.sortOf(t)
	if c.Value == nil {
		return e.zeroOfSort(s, t)
	}
	switch s {
	case SBool:
		if constant.BoolVal(c.Value) {
			return tTrue
		}
		return tFalse
	case SInt:
		v, ok := new(big.Int).SetString(c.Value.ExactString(), 10)
		if !ok {
			if i, ok2 := constant.Int64Val(constant.ToInt(c.Value)); ok2 {
				v = big.NewInt(i)
			} else {
				e.problem("bad int const %s", c.Value)
				v = big.NewInt(0)
			}
		}
		return intLit(v)
	case SStr:
		return e.strConst(constant.StringVal(c.Value))
	case SF64:
		f, _ := constant.Float64Val(c.Value)
		return fpLit(f)
	}
	e.problem("unsupported constant %s of %s", c.Value, t)
	return e.fresh("const", s)
}

func fpLit(f float64) Term {
	bits := fmt.Sprintf("%064b", mathFloat64bits(f))
	return Term{fmt.Sprintf("(fp #b%s #b%s #b%s)", bits[0:1], bits[1:12], bits[12:]), SF64}
}

func (e *Enc) setVal(fr *Frame, v ssa.Value, t Term) {
	fr.vals[v] = e.def(v.Name()+fr.suffix, t)
}

// ---------------------------------------------------------------- loads and stores

func (e *Enc) addrOf(fr *Frame, v ssa.Value, guard Term, pos string) *Addr {
	if a, ok := fr.addrs[v]; ok {
		return a
	}
	if g, ok := v.(*ssa.Global); ok {
		pt := g.Type().(*types.Pointer).Elem()
		s := e.sortOf(pt)
		if !e.w.MutGlob[g] {
			return &Addr{kind: AConstGlobal, key: g.String(), sort: s, typ: pt}
		}
		key := e.regHeap("G:"+shortFuncName(g.String()), s)
		return &Addr{kind: AGlobal, key: key, sort: s, typ: pt}
	}
	// a pointer value
	pt, ok := v.Type().Underlying().(*types.Pointer)
	if !ok {
		e.problem("%s: address of non-pointer %s", fr.fn.Name(), v.Name())
		return &Addr{kind: ACell, key: e.cellKey(SInt), ref: e.fresh("badref", SInt), sort: SInt}
	}
	ref := e.val(fr, v)
	el := pt.Elem()
	if e.isElemPtrType(el) {
		return e.elemAddr(ref, el)
	}
	if _, isStruct := el.Underlying().(*types.Struct); isStruct {
		return &Addr{kind: AStructPtr, ref: ref, typ: el, sort: e.sortOf(el)}
	}
	s := e.sortOf(el)
	return &Addr{kind: ACell, key: e.cellKey(s), ref: ref, sort: s, typ: el}
}

func (e *Enc) globalConst(key string, sort string, t types.Type) Term {
	name := "G_" + mangle(shortFuncName(key))
	if !e.declared["(declare-const "+name+" "+sort+")"] {
		e.declare(fmt.Sprintf("(declare-const %s %s)", name, sort))
		x := Term{name, sort}
		var a0 Term
		if e.entryState != nil {
			a0 = e.heapGet(e.entryState, e.allocKey()) // package-level objects exist before the call
		}
		for _, f := range e.typeFacts(x, t, a0) {
			e.declare("(assert " + f.S + ")")
		}
	}
	return Term{name, sort}
}

func (e *Enc) load(st *State, a *Addr) Term {
	switch a.kind {
	case AField:
		return sel(e.heapGet(st, a.key), a.ref, a.sort)
	case AElem:
		return sel(sel(e.heapGet(st, a.key), a.ref, arraySort(SInt, a.sort)), a.idx, a.sort)
	case ACell:
		return sel(e.heapGet(st, a.key), a.ref, a.sort)
	case AGlobal:
		return e.heapGet(st, a.key)
	case AConstGlobal:
		return e.globalConst(a.key, a.sort, a.typ)
	case ASub:
		p := e.load(st, a.parent)
		return Term{fmt.Sprintf("(%s_f%d %s)", a.parent.sort, a.field, p.S), a.sort}
	case AArrElem:
		p := e.load(st, a.parent)
		return sel(p, a.idx, a.sort)
	case AArrMem:
		return sel(e.heapGet(st, a.key), a.ref, arraySort(SInt, a.sort))
	case AStructPtr:
		u := a.typ.Underlying().(*types.Struct)
		var parts []string
		for i := 0; i < u.NumFields(); i++ {
			key, fs, _ := e.fieldKey(a.typ, i)
			parts = append(parts, sel(e.heapGet(st, key), a.ref, fs).S)
		}
		if u.NumFields() == 0 {
			return Term{"mk_" + a.sort, a.sort}
		}
		return Term{"(mk_" + a.sort + " " + strings.Join(parts, " ") + ")", a.sort}
	}
	panic("load kind")
}

func (e *Enc) storeTo(st *State, a *Addr, v Term) {
	switch a.kind {
	case AField, ACell:
		e.heapSet(st, a.key, store(e.heapGet(st, a.key), a.ref, v))
	case AElem:
		m := e.heapGet(st, a.key)
		inner := sel(m, a.ref, arraySort(SInt, a.sort))
		e.heapSet(st, a.key, store(m, a.ref, store(inner, a.idx, v)))
	case AGlobal:
		e.heapSet(st, a.key, v)
	case AConstGlobal:
		e.problem("store to init-only global %s", a.key)
	case ASub:
		p := e.load(st, a.parent)
		u := e.structs[a.parent.sort]
		var parts []string
		for i := 0; i < u.NumFields(); i++ {
			if i == a.field {
				parts = append(parts, v.S)
			} else {
				parts = append(parts, fmt.Sprintf("(%s_f%d %s)", a.parent.sort, i, p.S))
			}
		}
		e.storeTo(st, a.parent, Term{"(mk_" + a.parent.sort + " " + strings.Join(parts, " ") + ")", a.parent.sort})
	case AArrElem:
		p := e.load(st, a.parent)
		e.storeTo(st, a.parent, store(p, a.idx, v))
	case AArrMem:
		e.heapSet(st, a.key, store(e.heapGet(st, a.key), a.ref, v))
	case AStructPtr:
		u := a.typ.Underlying().(*types.Struct)
		for i := 0; i < u.NumFields(); i++ {
			key, fs, _ := e.fieldKey(a.typ, i)
			fv := Term{fmt.Sprintf("(%s_f%d %s)", a.sort, i, v.S), fs}
			e.heapSet(st, key, store(e.heapGet(st, key), a.ref, fv))
		}
	}
}

// facts about a freshly loaded value (refs are allocated, interfaces well-formed ...)
func (e *Enc) loadFacts(st *State, guard Term, v Term, t types.Type) {
	if t == nil {
		return
	}
	switch t.Underlying().(type) {
	case *types.Basic:
		if b := t.Underlying().(*types.Basic); b.Info()&(types.IsInteger|types.IsString) == 0 {
			return
		}
	case *types.Struct, *types.Array, *types.Signature:
		return
	}
	alloc := e.heapGet(st, e.allocKey())
	for _, f := range e.typeFacts(v, t, alloc) {
		e.assume(guard, f)
	}
}

// ---------------------------------------------------------------- running a function

func (e *Enc) newFrame(fn *ssa.Function, parent *Frame, path string) *Frame {
	e.nfresh++
	fr := &Frame{fn: fn, vals: map[ssa.Value]Term{}, tuples: map[ssa.Value][]Term{}, addrs: map[ssa.Value]*Addr{},
		reach: map[*ssa.BasicBlock]Term{}, out: map[*ssa.BasicBlock]*State{}, names: map[string][]ssa.Value{},
		hdrEnv: map[*ssa.BasicBlock]*loopCtx{}, parent: parent, path: path, loopLineStart: map[*ssa.BasicBlock]int{}}
	if parent != nil {
		fr.depth = parent.depth + 1
		fr.suffix = fmt.Sprintf("_i%d", e.nfresh)
	}
	return fr
}

// forward order: reverse post-order ignoring back edges
func blockOrder(fn *ssa.Function) (order []*ssa.BasicBlock, isBack map[[2]*ssa.BasicBlock]bool) {
	isBack = map[[2]*ssa.BasicBlock]bool{}
	if len(fn.Blocks) == 0 {
		return
	}
	state := map[*ssa.BasicBlock]int{}
	var post []*ssa.BasicBlock
	var dfs func(b *ssa.BasicBlock)
	dfs = func(b *ssa.BasicBlock) {
		state[b] = 1
		for _, s := range b.Succs {
			switch state[s] {
			case 0:
				dfs(s)
			case 1:
				isBack[[2]*ssa.BasicBlock{b, s}] = true
			}
		}
		state[b] = 2
		post = append(post, b)
	}
	dfs(fn.Blocks[0])
	if fn.Recover != nil && state[fn.Recover] == 0 {
		// recover block handled separately
	}
	for i := len(post) - 1; i >= 0; i-- {
		order = append(order, post[i])
	}
	return
}

func findLoops(fn *ssa.Function, order []*ssa.BasicBlock, isBack map[[2]*ssa.BasicBlock]bool) map[*ssa.BasicBlock]*loopInfo {
	loops := map[*ssa.BasicBlock]*loopInfo{}
	for edge := range isBack {
		src, h := edge[0], edge[1]
		li := loops[h]
		if li == nil {
			li = &loopInfo{header: h, body: map[*ssa.BasicBlock]bool{h: true}}
			loops[h] = li
		}
		li.backs = append(li.backs, src)
		// natural loop: all blocks that reach src without passing h
		stack := []*ssa.BasicBlock{src}
		for len(stack) > 0 {
			b := stack[len(stack)-1]
			stack = stack[:len(stack)-1]
			if li.body[b] {
				continue
			}
			li.body[b] = true
			for _, p := range b.Preds {
				stack = append(stack, p)
			}
		}
	}
	// ordinals in source order of the header position
	var hs []*ssa.BasicBlock
	for h := range loops {
		hs = append(hs, h)
	}
	sort.Slice(hs, func(i, j int) bool {
		pi, pj := loopPos(hs[i]), loopPos(hs[j])
		if pi != pj {
			return pi < pj
		}
		return hs[i].Index < hs[j].Index
	})
	for i, h := range hs {
		loops[h].ordinal = i + 1
		sort.Slice(loops[h].backs, func(a, b int) bool { return loops[h].backs[a].Index < loops[h].backs[b].Index })
	}
	return loops
}

func loopPos(h *ssa.BasicBlock) token.Pos {
	// smallest valid position of an instruction in the loop header or its first successor blocks
	best := token.Pos(1 << 60)
	scan := func(b *ssa.BasicBlock) {
		for _, ins := range b.Instrs {
			if _, isPhi := ins.(*ssa.Phi); isPhi {
				continue // a phi carries the position of the variable's declaration, not of the loop
			}
			if p := ins.Pos(); p.IsValid() && p < best {
				best = p
			}
			if d, ok := ins.(*ssa.DebugRef); ok {
				if p := d.Expr.Pos(); p.IsValid() && p < best {
					best = p
				}
			}
		}
	}
	scan(h)
	for _, s := range h.Succs {
		scan(s)
	}
	return best
}

// run encodes fn from the given arguments and state under guard; returns exits.
func (e *Enc) run(fr *Frame, args []Term, st0 *State, guard Term) []*Exit {
	fn := fr.fn
	for i, p := range fn.Params {
		fr.vals[p] = args[i]
	}
	// collect names
	for _, p := range fn.Params {
		fr.names[p.Name()] = append(fr.names[p.Name()], p)
	}
	for _, b := range fn.Blocks {
		for _, ins := range b.Instrs {
			if d, ok := ins.(*ssa.DebugRef); ok && !d.IsAddr {
				if id := identName(d); id != "" {
					if u, isLoad := d.X.(*ssa.UnOp); isLoad && u.Op == token.MUL {
						if al, isAlloc := u.X.(*ssa.Alloc); isAlloc {
							// a read of a local that lives in a heap cell (captured by a closure): the name denotes
							// the cell's content in whatever state the contract expression is evaluated
							if _, isStruct := al.Type().Underlying().(*types.Pointer).Elem().Underlying().(*types.Struct); !isStruct {
								if fr.cellNames == nil {
									fr.cellNames = map[string]*ssa.Alloc{}
								}
								if _, dup := fr.cellNames[id]; !dup {
									fr.cellNames[id] = al
								}
							}
						}
					}
					fr.names[id] = append(fr.names[id], d.X)
				}
			}
			if d, ok := ins.(*ssa.DebugRef); ok && d.IsAddr {
				// an address-taken local of struct type: the name denotes the object (used like a pointer in contracts)
				if al, isAlloc := d.X.(*ssa.Alloc); isAlloc {
					if _, isStruct := al.Type().Underlying().(*types.Pointer).Elem().Underlying().(*types.Struct); isStruct {
						if id := identName(d); id != "" {
							fr.names[id] = append(fr.names[id], d.X)
						}
					} else if id := identName(d); id != "" {
						// a local kept in a heap cell (captured by a closure): the name denotes the cell's content
						if fr.cellNames == nil {
							fr.cellNames = map[string]*ssa.Alloc{}
						}
						if _, dup := fr.cellNames[id]; !dup {
							fr.cellNames[id] = al
						}
					}
				}
			}
			if phi, ok := ins.(*ssa.Phi); ok && phi.Comment != "" {
				fr.names[phi.Comment] = append(fr.names[phi.Comment], phi)
			}
		}
	}
	order, isBack := blockOrder(fn)
	fr.loops = findLoops(fn, order, isBack)
	inOrder := map[*ssa.BasicBlock]bool{}
	for _, b := range order {
		inOrder[b] = true
	}

	edgeCond := map[[2]*ssa.BasicBlock]Term{}

	for _, b := range order {
		// ---- entry state and reachability
		var st *State
		var reach Term
		var predConds []Term
		var predBlocks []*ssa.BasicBlock
		if b == fn.Blocks[0] {
			st = st0.clone()
			reach = guard
		} else {
			var sts []*State
			for _, p := range b.Preds {
				if isBack[[2]*ssa.BasicBlock{p, b}] || !inOrder[p] {
					continue
				}
				c, ok := edgeCond[[2]*ssa.BasicBlock{p, b}]
				if !ok {
					continue
				}
				predConds = append(predConds, c)
				predBlocks = append(predBlocks, p)
				sts = append(sts, fr.out[p])
			}
			if len(sts) == 0 {
				fr.reach[b] = tFalse
				fr.out[b] = st0.clone()
				continue
			}
			reach = e.def(fmt.Sprintf("r_%s_b%d", mangle(fn.Name()), b.Index)+fr.suffix, or(predConds...))
			st = e.mergeStates(predConds, sts)
		}
		fr.reach[b] = reach
		if fr.isTop {
			// innermost enclosing loop decides which earlier quantified facts are still relevant
			e.loopStart = 0
			for h, l2 := range fr.loops {
				if l2.body[b] && h != b {
					if s0, ok := fr.loopLineStart[h]; ok && s0 > e.loopStart {
						e.loopStart = s0
					}
				}
			}
		}

		li := fr.loops[b]
		// ---- phis
		for _, ins := range b.Instrs {
			phi, ok := ins.(*ssa.Phi)
			if !ok {
				break
			}
			var t Term
			first := true
			for k := len(predBlocks) - 1; k >= 0; k-- {
				p := predBlocks[k]
				idx := predIndex(b, p)
				v := e.val(fr, phi.Edges[idx])
				if first {
					t = v
					first = false
				} else {
					t = ite(predConds[k], v, t)
				}
			}
			if first {
				t = e.zero(phi.Type())
			}
			e.setVal(fr, phi, t)
		}
		if li != nil {
			e.loopHeader(fr, b, li, st, reach)
		}

		// ---- instructions
		for _, ins := range b.Instrs {
			if _, ok := ins.(*ssa.Phi); ok {
				continue
			}
			e.instr(fr, b, ins, st, reach)
		}
		fr.out[b] = st

		// ---- terminator edges
		if len(b.Instrs) == 0 {
			continue
		}
		switch term := b.Instrs[len(b.Instrs)-1].(type) {
		case *ssa.If:
			c := e.val(fr, term.Cond)
			edgeCond[[2]*ssa.BasicBlock{b, b.Succs[0]}] = e.def("e", and(reach, c))
			// both successors may be the same block
			if b.Succs[0] == b.Succs[1] {
				edgeCond[[2]*ssa.BasicBlock{b, b.Succs[0]}] = reach
			} else {
				edgeCond[[2]*ssa.BasicBlock{b, b.Succs[1]}] = e.def("e", and(reach, not(c)))
			}
		case *ssa.Jump:
			edgeCond[[2]*ssa.BasicBlock{b, b.Succs[0]}] = reach
		}
		// back edges leaving this block
		for _, s := range b.Succs {
			if isBack[[2]*ssa.BasicBlock{b, s}] {
				e.backEdge(fr, b, s, edgeCond[[2]*ssa.BasicBlock{b, s}], st)
			}
		}
		// iteration ends of loops with step clauses: the edge into the loop's exit join (the block where all ways out of
		// the loop meet), so that the code of `break` branches - which is not part of the natural loop - is included
		for _, h := range sortedHeaders(fr.loops) {
			li := fr.loops[h]
			lc := fr.hdrEnv[h]
			if lc == nil || lc.spec == nil || len(lc.spec.Steps) == 0 {
				continue
			}
			join, region := exitJoin(fr.fn, li, order, isBack)
			if !li.body[b] && !region[b] {
				continue
			}
			for si, s := range b.Succs {
				if s == join && !li.body[s] {
					if c, ok := edgeCond[[2]*ssa.BasicBlock{b, s}]; ok {
						e.stepObligations(fr, h, c, st, fmt.Sprintf("exit-b%d-%d", b.Index, si))
					}
				}
			}
			if len(b.Instrs) > 0 {
				if _, isRet := b.Instrs[len(b.Instrs)-1].(*ssa.Return); isRet {
					e.stepObligations(fr, h, reach, st, fmt.Sprintf("return-b%d", b.Index))
				}
			}
		}
	}
	return fr.exits
}

func predIndex(b, p *ssa.BasicBlock) int {
	for i, q := range b.Preds {
		if q == p {
			return i
		}
	}
	return -1
}

func identName(d *ssa.DebugRef) string {
	if obj := d.Object(); obj != nil {
		if _, ok := obj.(*types.Var); ok {
			return obj.Name()
		}
	}
	return ""
}

func (e *Enc) fieldPtr(key string, ref Term) Term {
	fn := "fptr_" + mangle(key)
	e.declare(fmt.Sprintf("(declare-fun %s (Int) Int)", fn))
	t := T(SInt, "(%s %s)", fn, ref.S)
	e.assume(tTrue, T(SBool, "(> %s 0)", t.S))
	return t
}

func sortedHeaders(m map[*ssa.BasicBlock]*loopInfo) []*ssa.BasicBlock {
	var hs []*ssa.BasicBlock
	for h := range m {
		hs = append(hs, h)
	}
	sort.Slice(hs, func(i, j int) bool { return m[hs[i]].ordinal < m[hs[j]].ordinal })
	return hs
}

// exitJoin: the block where all paths leaving the loop meet (nil if there is none) and the blocks between the loop
// and that block (the code of break branches).
func exitJoin(fn *ssa.Function, li *loopInfo, order []*ssa.BasicBlock, isBack map[[2]*ssa.BasicBlock]bool) (*ssa.BasicBlock, map[*ssa.BasicBlock]bool) {
	var targets []*ssa.BasicBlock
	seenT := map[*ssa.BasicBlock]bool{}
	for b := range li.body {
		for _, s := range b.Succs {
			if !li.body[s] && !seenT[s] {
				seenT[s] = true
				targets = append(targets, s)
			}
		}
	}
	reachFrom := func(t *ssa.BasicBlock) map[*ssa.BasicBlock]bool {
		r := map[*ssa.BasicBlock]bool{}
		stack := []*ssa.BasicBlock{t}
		for len(stack) > 0 {
			b := stack[len(stack)-1]
			stack = stack[:len(stack)-1]
			if r[b] || li.body[b] {
				continue
			}
			r[b] = true
			for _, s := range b.Succs {
				if !isBack[[2]*ssa.BasicBlock{b, s}] {
					stack = append(stack, s)
				} else if s != li.header && !li.body[s] {
					// a back edge of an enclosing loop: its header is where this way out of the inner loop ends
					// (terminal: not expanded), so that exits which only meet there still have a join
					r[s] = true
				}
			}
		}
		return r
	}
	var sets []map[*ssa.BasicBlock]bool
	for _, t := range targets {
		sets = append(sets, reachFrom(t))
	}
	var join *ssa.BasicBlock
	for _, b := range order {
		if li.body[b] {
			continue
		}
		all := len(sets) > 0
		for _, r := range sets {
			if !r[b] {
				all = false
			}
		}
		if all {
			join = b
			break
		}
	}
	if os.Getenv("GVC_DEBUG_JOIN") != "" {
		var ts []int
		for _, t := range targets {
			ts = append(ts, t.Index)
		}
		ji := -1
		if join != nil {
			ji = join.Index
		}
		fmt.Fprintf(os.Stderr, "exitJoin %s header b%d: targets %v join b%d\n", fn.Name(), li.header.Index, ts, ji)
		for k, t := range targets {
			var rs []int
			for b := range sets[k] {
				rs = append(rs, b.Index)
			}
			sort.Ints(rs)
			var ps, ss []int
			for _, p := range t.Preds {
				ps = append(ps, p.Index)
			}
			for _, q := range t.Succs {
				ss = append(ss, q.Index)
			}
			fmt.Fprintf(os.Stderr, "   target b%d preds %v succs %v reach %v\n", t.Index, ps, ss, rs)
		}
	}
	region := map[*ssa.BasicBlock]bool{}
	if join != nil {
		after := reachFrom(join)
		for _, r := range sets {
			for b := range r {
				if !after[b] {
					region[b] = true
				}
			}
		}
	}
	return join, region
}
