package main

import (
	"sync"
	"fmt"
	"go/types"
	"math/big"
	"sort"
	"strings"

	"golang.org/x/tools/go/ssa"
)

// ---------------------------------------------------------------- terms and sorts

type Term struct {
	S    string
	Sort string
}

const (
	SBool  = "Bool"
	SInt   = "Int"
	SStr   = "Str"
	SIface = "Iface"
	SSlice = "Slice"
	SF64   = "F64"
	SCplx  = "Cplx"
)

func T(sort, f string, a ...interface{}) Term { return Term{fmt.Sprintf(f, a...), sort} }

var (
	tTrue  = Term{"true", SBool}
	tFalse = Term{"false", SBool}
)

func intLit(v *big.Int) Term {
	if v.Sign() < 0 {
		return Term{"(- " + new(big.Int).Neg(v).String() + ")", SInt}
	}
	return Term{v.String(), SInt}
}
func intLit64(v int64) Term { return intLit(big.NewInt(v)) }

func and(ts ...Term) Term {
	var parts []string
	for _, t := range ts {
		if t.S == "true" {
			continue
		}
		if t.S == "false" {
			return tFalse
		}
		parts = append(parts, t.S)
	}
	switch len(parts) {
	case 0:
		return tTrue
	case 1:
		return Term{parts[0], SBool}
	}
	return Term{"(and " + strings.Join(parts, " ") + ")", SBool}
}
func or(ts ...Term) Term {
	var parts []string
	for _, t := range ts {
		if t.S == "false" {
			continue
		}
		if t.S == "true" {
			return tTrue
		}
		parts = append(parts, t.S)
	}
	switch len(parts) {
	case 0:
		return tFalse
	case 1:
		return Term{parts[0], SBool}
	}
	return Term{"(or " + strings.Join(parts, " ") + ")", SBool}
}
func not(t Term) Term {
	if t.S == "true" {
		return tFalse
	}
	if t.S == "false" {
		return tTrue
	}
	return Term{"(not " + t.S + ")", SBool}
}
func implies(a, b Term) Term {
	if a.S == "true" {
		return b
	}
	if b.S == "true" || a.S == "false" {
		return tTrue
	}
	return Term{"(=> " + a.S + " " + b.S + ")", SBool}
}
func eq(a, b Term) Term {
	if a.S == b.S {
		return tTrue
	}
	if a.Sort == SF64 {
		return Term{"(fp.eq " + a.S + " " + b.S + ")", SBool}
	}
	return Term{"(= " + a.S + " " + b.S + ")", SBool}
}
// same: structural identity (for floats: same bit pattern class, so that the sign of a zero and NaN-ness survive
// boxing into an interface); eq is Go's == (IEEE comparison for floats).
func same(a, b Term) Term {
	if a.S == b.S {
		return tTrue
	}
	return Term{"(= " + a.S + " " + b.S + ")", SBool}
}
func ite(c, a, b Term) Term {
	if c.S == "true" || a.S == b.S {
		return a
	}
	if c.S == "false" {
		return b
	}
	return Term{"(ite " + c.S + " " + a.S + " " + b.S + ")", a.Sort}
}
func sel(arr, i Term, sort string) Term { return Term{"(select " + arr.S + " " + i.S + ")", sort} }
func store(arr, i, v Term) Term       { return Term{"(store " + arr.S + " " + i.S + " " + v.S + ")", arr.Sort} }
func arraySort(idx, el string) string { return "(Array " + idx + " " + el + ")" }

func mangle(s string) string {
	var sb strings.Builder
	for _, c := range s {
		switch {
		case c >= 'a' && c <= 'z', c >= 'A' && c <= 'Z', c >= '0' && c <= '9', c == '_':
			sb.WriteRune(c)
		case c == '*':
			sb.WriteString("P_")
		case c == '[':
			sb.WriteString("L_")
		case c == ']':
		default:
			sb.WriteRune('_')
		}
	}
	return sb.String()
}

// ---------------------------------------------------------------- encoder

type Obligation struct {
	Name    string
	Kind    string // ensures, requires, safe, invariant, frame, cover, lemma, decreases
	Prefix  int    // number of lines visible
	Goal    string // formula to prove (negated in the query); for cover: formula expected satisfiable
	Cover   bool
	Func    string
	Pos     string   // source position (informational only, never part of the name)
	Inputs  []string // SMT constants whose model values describe the input
	Note    string
	LoopStart int    // lines before this index come from before the innermost enclosing loop header (quantified assumptions there are about pre-loop memory and are dropped)
	Skip    map[int]bool // lines left out of the standalone query (staged invariants: assumptions made for later invariants)
	caseSel int      // which case a standalone script asserts (-1: none)
	Cases   []string // optional case split: the obligation holds iff it holds under each case (cases are exhaustive by construction)
}

type Enc struct {
	stepCover map[string][]Term // per step clause: (edge condition and hypothesis) for every edge that ends an iteration
	axMu       sync.Mutex
	usedAxioms map[string]bool // trusted spec axioms (by trigger symbol) that entered this function's queries
	usesUncomparable bool // an interface comparison was encoded (declare uncomparable_tag and its facts)
	roCells []roCell // local cells no callee can write (see cellWrittenOnlyHere)
	csHit map[string]bool // callsite clauses that matched a call
	w       *World
	top     *ssa.Function
	topCon  *Contract
	decls   []string
	lines   []string
	obls    []*Obligation
	nfresh  int
	declared map[string]bool
	heapSort map[string]string // heap key -> SMT sort of the whole heap value
	typeIDs  map[string]int    // concrete type string -> id
	typeOf   map[string]types.Type
	structs  map[string]*types.Struct // declared struct sorts
	counters map[string]int
	strConsts map[string]string
	problems []string // unsupported constructs met (function is then "outside subset" for affected obligations)
	inputs   []string
	ifaceImplFacts map[string]bool
	boxes    map[string]string // mangled concrete type -> payload sort
	inlineStack []*ssa.Function
	maxInline int
	entryState *State
	paramTerms map[string]TT
	assumeNote []string
	usedContracts map[string]bool
	immut map[string]bool
	elemPtrTypes map[string]bool
	baseAlloc map[string]Term
	loopStart int
	memAxiom map[int]bool // indices of lines that are quantified append/copy axioms
	protected map[string][]Term // heap key -> refs whose entries survive havocs
	fieldInfo map[string]fieldRef
}

type fieldRef struct {
	st  types.Type
	idx int
}

func NewEnc(w *World, fn *ssa.Function, c *Contract) *Enc {
	return &Enc{w: w, top: fn, topCon: c, declared: map[string]bool{}, heapSort: map[string]string{}, typeIDs: map[string]int{},
		typeOf: map[string]types.Type{}, structs: map[string]*types.Struct{}, counters: map[string]int{}, strConsts: map[string]string{},
		ifaceImplFacts: map[string]bool{}, boxes: map[string]string{}, maxInline: 4, paramTerms: map[string]TT{}, usedContracts: map[string]bool{}, baseAlloc: map[string]Term{}, fieldInfo: map[string]fieldRef{}, memAxiom: map[int]bool{}}
}

func (e *Enc) problem(f string, a ...interface{}) {
	e.problems = append(e.problems, fmt.Sprintf(f, a...))
}

func (e *Enc) declare(line string) {
	if !e.declared[line] {
		e.declared[line] = true
		e.decls = append(e.decls, line)
	}
}

func (e *Enc) fresh(prefix, sort string) Term {
	e.nfresh++
	name := fmt.Sprintf("%s_%d", mangle(prefix), e.nfresh)
	e.declare(fmt.Sprintf("(declare-const %s %s)", name, sort))
	return Term{name, sort}
}

// def names a term so that later uses share it.
func (e *Enc) def(prefix string, t Term) Term {
	if isAtom(t.S) {
		return t
	}
	e.nfresh++
	name := fmt.Sprintf("%s_%d", mangle(prefix), e.nfresh)
	e.lines = append(e.lines, fmt.Sprintf("(define-fun %s () %s %s)", name, t.Sort, t.S))
	return Term{name, t.Sort}
}

func isAtom(s string) bool { return !strings.ContainsAny(s, "( ") }

// assumeMem: a quantified fact describing the result array of an append/copy (may be dropped for obligations inside a
// later loop, whose havoc makes it irrelevant).
func (e *Enc) assumeMem(guard, fact Term) {
	n := len(e.lines)
	e.assume(guard, fact)
	if len(e.lines) > n {
		e.memAxiom[len(e.lines)-1] = true
	}
}

func (e *Enc) assume(guard, fact Term) {
	f := implies(guard, fact)
	if f.S == "true" {
		return
	}
	e.lines = append(e.lines, "(assert "+f.S+")")
}

func (e *Enc) oblige(name, kind string, guard, goal Term, pos string) *Obligation {
	o := &Obligation{caseSel: -1, LoopStart: e.loopStart, Name: name, Kind: kind, Prefix: len(e.lines), Goal: implies(guard, goal).S, Func: e.top.String(), Pos: pos, Inputs: e.inputs}
	e.obls = append(e.obls, o)
	return o
}

// safety obligation: prove, then assume.
func (e *Enc) safe(fr *Frame, kind string, guard, goal Term, pos string) {
	if goal.S == "true" {
		return
	}
	key := kind
	if fr.path != "" {
		key = kind + "@" + fr.path
	}
	e.counters[key]++
	name := fmt.Sprintf("%s:safe:%s#%d", e.topName(), key, e.counters[key])
	e.oblige(name, "safe", guard, goal, pos)
	e.assume(guard, goal)
}

func (e *Enc) topName() string {
	name := e.top.String()
	if e.top.Parent() != nil {
		// anonymous functions are named by their stable alias (file and ordinal), not by the init#N$M SSA name
		for alias, real := range e.w.Alias {
			if real == name {
				return shortFuncName(alias)
			}
		}
	}
	return shortFuncName(name)
}

func shortFuncName(s string) string {
	return strings.ReplaceAll(s, repoModule+"/", "")
}

// ---------------------------------------------------------------- sorts of Go types

func (e *Enc) sortOf(t types.Type) string {
	switch u := t.Underlying().(type) {
	case *types.Basic:
		switch {
		case u.Info()&types.IsBoolean != 0:
			return SBool
		case u.Info()&types.IsInteger != 0:
			return SInt
		case u.Info()&types.IsFloat != 0:
			return SF64
		case u.Info()&types.IsComplex != 0:
			e.declare("(declare-sort Cplx 0)")
			return SCplx
		case u.Info()&types.IsString != 0:
			return SStr
		case u.Kind() == types.UnsafePointer:
			return SInt
		case u.Kind() == types.UntypedNil:
			return SInt
		}
	case *types.Pointer, *types.Map, *types.Chan, *types.Signature:
		return SInt
	case *types.Slice:
		return SSlice
	case *types.Interface:
		return SIface
	case *types.Struct:
		return e.structSort(t, u)
	case *types.Array:
		return arraySort(SInt, e.sortOf(u.Elem()))
	case *types.Tuple:
		return "TUPLE"
	}
	e.problem("unsupported type %s", t)
	return SInt
}

func (e *Enc) structSort(t types.Type, u *types.Struct) string {
	name := "S_" + mangle(types.TypeString(t, nil))
	if _, ok := t.(*types.Named); !ok {
		name = "S_anon_" + mangle(u.String())
	}
	if len(name) > 80 {
		name = name[:80] + fmt.Sprintf("_%d", len(name))
	}
	if _, ok := e.structs[name]; ok {
		return name
	}
	e.structs[name] = u
	var fields []string
	for i := 0; i < u.NumFields(); i++ {
		fields = append(fields, fmt.Sprintf("(%s_f%d %s)", name, i, e.sortOf(u.Field(i).Type())))
	}
	if u.NumFields() == 0 {
		e.decls = append(e.decls, fmt.Sprintf("(declare-datatypes ((%s 0)) (((mk_%s))))", name, name))
		return name
	}
	e.decls = append(e.decls, fmt.Sprintf("(declare-datatypes ((%s 0)) (((mk_%s %s))))", name, name, strings.Join(fields, " ")))
	return name
}

func (e *Enc) zero(t types.Type) Term {
	s := e.sortOf(t)
	return e.zeroOfSort(s, t)
}

func (e *Enc) zeroOfSort(s string, t types.Type) Term {
	switch s {
	case SBool:
		return tFalse
	case SInt:
		return Term{"0", SInt}
	case SStr:
		return e.strConst("")
	case SIface:
		return Term{"nil_iface", SIface}
	case SSlice:
		return Term{"nil_slice", SSlice}
	case SF64:
		return Term{"((_ to_fp 11 53) RNE 0.0)", SF64}
	case SCplx:
		return e.freshOnce("cplx_zero", SCplx)
	}
	if u, ok := e.structs[s]; ok {
		var parts []string
		for i := 0; i < u.NumFields(); i++ {
			parts = append(parts, e.zero(u.Field(i).Type()).S)
		}
		if u.NumFields() == 0 {
			return Term{"mk_" + s, s}
		}
		return Term{"(mk_" + s + " " + strings.Join(parts, " ") + ")", s}
	}
	if strings.HasPrefix(s, "(Array Int ") && t != nil {
		if a, ok := t.Underlying().(*types.Array); ok {
			return Term{fmt.Sprintf("((as const %s) %s)", s, e.zero(a.Elem()).S), s}
		}
	}
	e.problem("no zero value for sort %s", s)
	return e.fresh("zero", s)
}

func (e *Enc) freshOnce(name, sort string) Term {
	e.declare(fmt.Sprintf("(declare-const %s %s)", name, sort))
	return Term{name, sort}
}

func (e *Enc) strConst(v string) Term {
	if n, ok := e.strConsts[v]; ok {
		return Term{n, SStr}
	}
	n := fmt.Sprintf("strlit_%d", len(e.strConsts))
	e.strConsts[v] = n
	e.decls = append(e.decls, fmt.Sprintf("(declare-const %s Str) ; %q", n, truncate(v, 40)))
	e.decls = append(e.decls, fmt.Sprintf("(assert (= (str_len %s) %d))", n, len(v)))
	if len(v) <= 8 {
		for i := 0; i < len(v); i++ {
			e.decls = append(e.decls, fmt.Sprintf("(assert (= (str_at %s %d) %d))", n, i, v[i]))
		}
	}
	// distinct literals are distinct strings
	for other, on := range e.strConsts {
		if other != v {
			e.decls = append(e.decls, fmt.Sprintf("(assert (not (= %s %s)))", n, on))
		}
	}
	return Term{n, SStr}
}

func truncate(s string, n int) string {
	if len(s) > n {
		return s[:n] + "..."
	}
	return s
}

// integer type info
func intInfo(t types.Type) (bits int, signed bool, ok bool) {
	b, isB := t.Underlying().(*types.Basic)
	if !isB || b.Info()&types.IsInteger == 0 {
		return 0, false, false
	}
	switch b.Kind() {
	case types.Int8:
		return 8, true, true
	case types.Int16:
		return 16, true, true
	case types.Int32:
		return 32, true, true
	case types.Int64, types.Int, types.UntypedInt, types.UntypedRune:
		return 64, true, true
	case types.Uint8:
		return 8, false, true
	case types.Uint16:
		return 16, false, true
	case types.Uint32:
		return 32, false, true
	case types.Uint64, types.Uint, types.Uintptr:
		return 64, false, true
	}
	return 64, true, true
}

func pow2(n int) *big.Int { return new(big.Int).Lsh(big.NewInt(1), uint(n)) }

func intRange(t types.Type) (lo, hi *big.Int) {
	bits, signed, _ := intInfo(t)
	if signed {
		return new(big.Int).Neg(pow2(bits - 1)), new(big.Int).Sub(pow2(bits-1), big.NewInt(1))
	}
	return big.NewInt(0), new(big.Int).Sub(pow2(bits), big.NewInt(1))
}

func inRange(x Term, t types.Type) Term {
	lo, hi := intRange(t)
	return T(SBool, "(and (<= %s %s) (<= %s %s))", intLit(lo).S, x.S, x.S, intLit(hi).S)
}

// wrapLin wraps a value known to lie within one modulus of the range (result of + or -).
func wrapLin(x Term, t types.Type) Term {
	bits, _, _ := intInfo(t)
	lo, hi := intRange(t)
	m := pow2(bits)
	return T(SInt, "(ite (> %s %s) (- %s %s) (ite (< %s %s) (+ %s %s) %s))", x.S, intLit(hi).S, x.S, m.String(), x.S, intLit(lo).S, x.S, m.String(), x.S)
}

func wrapMod(x Term, t types.Type) Term {
	bits, signed, _ := intInfo(t)
	m := pow2(bits)
	if !signed {
		return T(SInt, "(mod %s %s)", x.S, m.String())
	}
	h := pow2(bits - 1)
	return T(SInt, "(- (mod (+ %s %s) %s) %s)", x.S, h.String(), m.String(), h.String())
}

// ---------------------------------------------------------------- facts about values of a Go type

func (e *Enc) typeFacts(x Term, t types.Type, alloc Term) []Term {
	var out []Term
	switch u := t.Underlying().(type) {
	case *types.Basic:
		if u.Info()&types.IsInteger != 0 {
			out = append(out, inRange(x, t))
		}
		if u.Info()&types.IsString != 0 {
			out = append(out, T(SBool, "(and (>= (str_len %s) 0) (<= (str_len %s) 1099511627776))", x.S, x.S)) // no string longer than 2^40 bytes exists (same assumption as for slices)
		}
	case *types.Pointer, *types.Map, *types.Chan:
		out = append(out, T(SBool, "(>= %s 0)", x.S))
		if alloc.S != "" {
			out = append(out, T(SBool, "(< %s %s)", x.S, alloc.S))
		}
	case *types.Signature:
		out = append(out, T(SBool, "(>= %s 0)", x.S))
	case *types.Slice:
		out = append(out, T(SBool, "(slice_wf %s %d)", x.S, maxExisting(u.Elem())))
		if alloc.S != "" {
			out = append(out, T(SBool, "(< (s_arr %s) %s)", x.S, alloc.S))
		}
	case *types.Interface:
		out = append(out, T(SBool, "(= (= %s nil_iface) (= (tag %s) 0))", x.S, x.S))
		out = append(out, T(SBool, "(>= (tag %s) 0)", x.S))
	case *types.Struct:
		s := e.sortOf(t)
		for i := 0; i < u.NumFields(); i++ {
			ft := u.Field(i).Type()
			fx := Term{fmt.Sprintf("(%s_f%d %s)", s, i, x.S), e.sortOf(ft)}
			out = append(out, e.typeFacts(fx, ft, alloc)...)
		}
	}
	return out
}

func (e *Enc) freshTyped(prefix string, t types.Type, guard Term, st *State) Term {
	s := e.sortOf(t)
	x := e.fresh(prefix, s)
	var alloc Term
	if st != nil {
		alloc = e.heapGet(st, "$alloc")
	}
	for _, f := range e.typeFacts(x, t, alloc) {
		e.assume(tTrue, f)
	}
	_ = guard
	return x
}

// ---------------------------------------------------------------- state (heaps)

type State struct {
	heaps map[string]Term
	base  string
}

func (e *Enc) newState(base string) *State { return &State{heaps: map[string]Term{}, base: base} }

func (s *State) clone() *State {
	n := &State{heaps: make(map[string]Term, len(s.heaps)), base: s.base}
	for k, v := range s.heaps {
		n.heaps[k] = v
	}
	return n
}

func (e *Enc) heapGet(st *State, key string) Term {
	if t, ok := st.heaps[key]; ok {
		return t
	}
	srt, ok := e.heapSort[key]
	if !ok {
		panic("heap sort unknown for " + key)
	}
	name := "H_" + mangle(key) + "_" + st.base
	e.declare(fmt.Sprintf("(declare-const %s %s)", name, srt))
	t := Term{name, srt}
	if key == "$alloc" {
		e.declare(fmt.Sprintf("(assert (> %s 0))", name))
		if _, ok := e.baseAlloc[st.base]; !ok {
			e.baseAlloc[st.base] = t
		}
	}
	st.heaps[key] = t
	e.freshHeapFacts(st, key, t)
	return t
}

// freshHeapFacts: object invariants of the parameters in a heap component that has just been introduced (function entry
// or after a havoc): reference-like fields of the objects the parameters point to are well formed and allocated.
func (e *Enc) freshHeapFacts(st *State, key string, h Term) {
	fi, ok := e.fieldInfo[key]
	if !ok {
		return
	}
	ft := fi.st.Underlying().(*types.Struct).Field(fi.idx).Type()
	switch ft.Underlying().(type) {
	case *types.Pointer, *types.Slice, *types.Map, *types.Interface:
	default:
		return
	}
	alloc, ok := e.baseAlloc[st.base]
	if !ok {
		alloc = e.heapGet(st, e.allocKey())
	}
	fs := e.sortOf(ft)
	var names []string
	for n := range e.paramTerms {
		names = append(names, n)
	}
	sort.Strings(names)
	for _, n := range names {
		p := e.paramTerms[n]
		pt, ok := p.T.Underlying().(*types.Pointer)
		if !ok || !types.Identical(pt.Elem(), fi.st) {
			continue
		}
		v := sel(h, p.Term, fs)
		for _, f := range e.typeFacts(v, ft, alloc) {
			e.assume(tTrue, implies(T(SBool, "(> %s 0)", p.S), f))
		}
	}
}

func (e *Enc) heapSet(st *State, key string, v Term) {
	st.heaps[key] = e.def("H_"+key, v)
}

func (e *Enc) regHeap(key, sort string) string {
	if old, ok := e.heapSort[key]; ok && old != sort {
		panic(fmt.Sprintf("heap %s sort clash %s vs %s", key, old, sort))
	}
	e.heapSort[key] = sort
	return key
}

func (e *Enc) fieldKey(structType types.Type, idx int) (key string, fsort string, ftype types.Type) {
	u := structType.Underlying().(*types.Struct)
	f := u.Field(idx)
	name := types.TypeString(structType, nil)
	if _, ok := structType.(*types.Named); !ok {
		name = "anon{" + u.String() + "}"
	}
	name = strings.ReplaceAll(name, repoModule+"/", "")
	key = "F:" + name + "." + f.Name()
	fsort = e.sortOf(f.Type())
	e.regHeap(key, arraySort(SInt, fsort))
	if _, ok := e.fieldInfo[key]; !ok {
		e.fieldInfo[key] = fieldRef{structType, idx}
	}
	return key, fsort, f.Type()
}

func (e *Enc) memKey(elemSort string) string {
	return e.regHeap("M:"+elemSort, arraySort(SInt, arraySort(SInt, elemSort)))
}
func (e *Enc) cellKey(sort string) string { return e.regHeap("C:"+sort, arraySort(SInt, sort)) }
func (e *Enc) allocKey() string           { return e.regHeap("$alloc", SInt) }
func (e *Enc) ghostKey(name string) (string, string) {
	g := e.w.CS.Ghosts[name]
	return e.regHeap("ghost:"+name, arraySort(SInt, g.Sort)), g.Sort
}

// immutableKeys: heap components declared immutable (never written after construction; see checkImmutable).
func (e *Enc) immutableKeys() map[string]bool {
	if e.immut != nil {
		return e.immut
	}
	e.immut = map[string]bool{}
	for _, d := range e.w.CS.Immutable {
		if strings.HasPrefix(d.Spec, "ghost ") {
			name := strings.TrimSpace(strings.TrimPrefix(d.Spec, "ghost "))
			if e.w.CS.Ghosts[name] != nil {
				k, _ := e.ghostKey(name)
				e.immut[k] = true
			}
			continue
		}
		i := strings.LastIndex(d.Spec, ".")
		if i < 0 {
			continue
		}
		t, err := e.w.lookupType(d.Spec[:i], d.Pkg)
		if err != nil {
			e.problem("immutable %s: %v", d.Spec, err)
			continue
		}
		st, ok := t.Underlying().(*types.Struct)
		if !ok {
			continue
		}
		for f := 0; f < st.NumFields(); f++ {
			if st.Field(f).Name() == d.Spec[i+1:] {
				k, _, _ := e.fieldKey(t, f)
				e.immut[k] = true
			}
		}
	}
	return e.immut
}

func (e *Enc) havocAll(st *State) {
	e.nfresh++
	alloc := e.heapGet(st, e.allocKey())
	keep := map[string]Term{}
	for k := range e.immutableKeys() {
		keep[k] = e.heapGet(st, k)
	}
	for name, g := range e.w.CS.Ghosts {
		if g.Local || g.Stable {
			k, _ := e.ghostKey(name)
			keep[k] = e.heapGet(st, k)
		}
	}
	for k := range st.heaps {
		// iteration ghosts (visited set of a map range, code-point count of a string range) are local to the activation
		if strings.HasPrefix(k, "RS:") || strings.HasPrefix(k, "RN:") {
			keep[k] = e.heapGet(st, k)
		}
	}
	oldProt := map[string]Term{}
	for k := range e.protected {
		oldProt[k] = e.heapGet(st, k)
	}
	defer func() {
		var ks []string
		for k := range oldProt {
			ks = append(ks, k)
		}
		sort.Strings(ks)
		for _, k := range ks {
			nh := e.heapGet(st, k)
			for _, r := range e.protected[k] {
				e.assume(tTrue, T(SBool, "(= (select %s %s) (select %s %s))", nh.S, r.S, oldProt[k].S, r.S))
			}
		}
	}()
	st.heaps = keep
	st.base = fmt.Sprintf("h%d", e.nfresh)
	na := e.heapGet(st, "$alloc")
	e.assume(tTrue, T(SBool, "(>= %s %s)", na.S, alloc.S))
	e.baseAlloc[st.base] = na
}

// havocAllCall: havocAll for a call; local cells that only the calling function writes keep their value.
func (e *Enc) havocAllCall(st *State) {
	type kept struct {
		c roCell
		v Term
	}
	var ks []kept
	for _, c := range e.roCells {
		ks = append(ks, kept{c, e.def("rocell", sel(e.heapGet(st, c.key), c.ref, c.sort))})
	}
	e.havocAll(st)
	for _, k := range ks {
		nh := e.heapGet(st, k.c.key)
		e.assume(tTrue, T(SBool, "(= (select %s %s) %s)", nh.S, k.c.ref.S, k.v.S))
	}
}

func (e *Enc) allocRef(st *State, guard Term) Term {
	a := e.heapGet(st, e.allocKey())
	ref := e.def("ref", a)
	e.heapSet(st, "$alloc", T(SInt, "(+ %s 1)", a.S))
	return ref
}

// mergeStates builds the state at a join from (condition, state) pairs; conditions are mutually exclusive.
func (e *Enc) mergeStates(conds []Term, sts []*State) *State {
	if len(sts) == 1 {
		return sts[0].clone()
	}
	keys := map[string]bool{}
	for _, s := range sts {
		for k := range s.heaps {
			keys[k] = true
		}
	}
	sameBase := true
	for _, s := range sts[1:] {
		if s.base != sts[0].base {
			sameBase = false
		}
	}
	out := &State{heaps: map[string]Term{}, base: sts[0].base}
	if !sameBase {
		// materialise every known heap in every predecessor, then pick a fresh base for unknown ones
		for k := range e.heapSort {
			keys[k] = true
		}
		e.nfresh++
		out.base = fmt.Sprintf("j%d", e.nfresh)
		defer func() {
			if a, ok := out.heaps["$alloc"]; ok {
				e.baseAlloc[out.base] = a
			}
		}()
	}
	var ks []string
	for k := range keys {
		ks = append(ks, k)
	}
	sort.Strings(ks)
	for _, k := range ks {
		vals := make([]Term, len(sts))
		same := true
		for i, s := range sts {
			vals[i] = e.heapGet(s, k)
			if vals[i].S != vals[0].S {
				same = false
			}
		}
		if same {
			out.heaps[k] = vals[0]
			continue
		}
		t := vals[len(vals)-1]
		for i := len(vals) - 2; i >= 0; i-- {
			t = ite(conds[i], vals[i], t)
		}
		out.heaps[k] = e.def("H_"+k, t)
	}
	return out
}

// ---------------------------------------------------------------- type ids, boxing

func typeKey(t types.Type) string {
	return strings.ReplaceAll(types.TypeString(t, nil), repoModule+"/", "")
}

func (e *Enc) typeID(t types.Type) Term {
	k := typeKey(t)
	if _, ok := e.typeIDs[k]; !ok {
		e.typeIDs[k] = len(e.typeIDs) + 1
		e.typeOf[k] = t
	}
	return Term{"id_" + mangle(k), SInt}
}

func (e *Enc) box(t types.Type, v Term) Term {
	k := mangle(typeKey(t))
	e.boxes[k] = v.Sort
	e.typeID(t)
	return Term{"(box_" + k + " " + v.S + ")", SIface}
}

func (e *Enc) unbox(t types.Type, x Term) Term {
	k := mangle(typeKey(t))
	s := e.sortOf(t)
	e.boxes[k] = s
	e.typeID(t)
	return Term{"(unbox_" + k + " " + x.S + ")", s}
}

// implementsFact: does concrete type id implement interface it?
func (e *Enc) implPred(it types.Type) string {
	return "impl_" + mangle(typeKey(it))
}

var gcSizes = types.SizesFor("gc", "amd64")

// maxElems: the largest number of elements a slice of this element type can have (runtime maxAlloc = 2^48 bytes on amd64).
func maxElems(el types.Type) int64 {
	sz := gcSizes.Sizeof(el)
	if sz <= 0 {
		sz = 1
	}
	return (int64(1) << 48) / sz
}

// maxExisting: assumed bound on the number of elements of any slice that exists (2^40; such a slice of one-byte
// elements already needs a terabyte).  Sums of a few existing lengths therefore stay far below maxElems.
func maxExisting(el types.Type) int64 {
	m := maxElems(el) / 8
	if m > int64(1)<<40 {
		m = int64(1) << 40
	}
	return m
}

// isElemPtrType: pointers to this struct type are declared (elemptr) to point into slice backing arrays only.
func (e *Enc) isElemPtrType(t types.Type) bool {
	if e.elemPtrTypes == nil {
		e.elemPtrTypes = map[string]bool{}
		for _, d := range e.w.CS.ElemPtr {
			if tt, err := e.w.lookupType(d.Spec, d.Pkg); err == nil {
				e.elemPtrTypes[types.TypeString(tt, nil)] = true
			}
		}
	}
	return e.elemPtrTypes[types.TypeString(t, nil)]
}

func (e *Enc) elemPtr(arr, idx Term) Term {
	e.declare("(declare-fun eptr (Int Int) Int)")
	e.declare("(declare-fun eptr_arr (Int) Int)")
	e.declare("(declare-fun eptr_idx (Int) Int)")
	p := e.def("eptr", T(SInt, "(eptr %s %s)", arr.S, idx.S))
	e.assume(tTrue, T(SBool, "(and (> %s 0) (= (eptr_arr %s) %s) (= (eptr_idx %s) %s))", p.S, p.S, arr.S, p.S, idx.S))
	return p
}

// elemAddr: the address denoted by an element pointer value p of element struct type t.
func (e *Enc) elemAddr(p Term, t types.Type) *Addr {
	e.declare("(declare-fun eptr (Int Int) Int)")
	e.declare("(declare-fun eptr_arr (Int) Int)")
	e.declare("(declare-fun eptr_idx (Int) Int)")
	s := e.sortOf(t)
	return &Addr{kind: AElem, key: e.memKey(s), ref: T(SInt, "(eptr_arr %s)", p.S), idx: T(SInt, "(eptr_idx %s)", p.S), sort: s, typ: t}
}
