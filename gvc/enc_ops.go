package main

import (
	"fmt"
	"go/token"
	"go/types"
	"math"
	"math/big"

	"golang.org/x/tools/go/ssa"
)

func mathFloat64bits(f float64) uint64 { return math.Float64bits(f) }

func (e *Enc) instr(fr *Frame, b *ssa.BasicBlock, ins ssa.Instruction, st *State, reach Term) {
	pos := e.pos(fr, ins.Pos())
	switch x := ins.(type) {
	case *ssa.DebugRef:
		return
	case *ssa.BinOp:
		e.setVal(fr, x, e.binop(fr, x, reach, pos))
	case *ssa.UnOp:
		e.unop(fr, x, st, reach, pos)
	case *ssa.Convert:
		e.setVal(fr, x, e.convert(fr, x, st, reach))
	case *ssa.ChangeType:
		fr.vals[x] = e.val(fr, x.X)
		if a, ok := fr.addrs[x.X]; ok {
			fr.addrs[x] = a
		}
	case *ssa.ChangeInterface:
		fr.vals[x] = e.val(fr, x.X)
	case *ssa.MakeInterface:
		v := e.val(fr, x.X)
		bx := e.def(x.Name()+fr.suffix, e.box(x.X.Type(), v))
		fr.vals[x] = bx
		e.assume(tTrue, eq(T(SInt, "(tag %s)", bx.S), e.typeID(x.X.Type())))
		e.assume(tTrue, same(e.unbox(x.X.Type(), bx), v))
		e.assume(tTrue, not(eq(bx, Term{"nil_iface", SIface})))
	case *ssa.TypeAssert:
		e.typeAssert(fr, x, st, reach, pos)
	case *ssa.Extract:
		tup, ok := fr.tuples[x.Tuple]
		if !ok || x.Index >= len(tup) {
			e.problem("%s: extract from unknown tuple %s", fr.fn.Name(), x.Tuple.Name())
			fr.vals[x] = e.freshTyped("extract", x.Type(), reach, st)
			return
		}
		fr.vals[x] = tup[x.Index]
	case *ssa.Alloc:
		e.alloc(fr, x, st, reach)
	case *ssa.FieldAddr:
		base := x.X
		pt := base.Type().Underlying().(*types.Pointer).Elem()
		if a, ok := fr.addrs[base]; ok && a.kind != AStructPtr && a.kind != ACell {
			// field of a struct value that lives inside something else
			u := pt.Underlying().(*types.Struct)
			fr.addrs[x] = &Addr{kind: ASub, parent: a, field: x.Field, sort: e.sortOf(u.Field(x.Field).Type()), typ: u.Field(x.Field).Type()}
			_ = e.sortOf(pt)
			return
		}
		ref := e.val(fr, base)
		e.safe(fr, "nil", reach, T(SBool, "(not (= %s 0))", ref.S), pos)
		if e.isElemPtrType(pt) {
			u := pt.Underlying().(*types.Struct)
			fr.addrs[x] = &Addr{kind: ASub, parent: e.elemAddr(ref, pt), field: x.Field, sort: e.sortOf(u.Field(x.Field).Type()), typ: u.Field(x.Field).Type()}
			return
		}
		key, fs, ft := e.fieldKey(pt, x.Field)
		fr.addrs[x] = &Addr{kind: AField, key: key, ref: ref, sort: fs, typ: ft}
	case *ssa.Field:
		sv := e.val(fr, x.X)
		u := x.X.Type().Underlying().(*types.Struct)
		s := e.sortOf(x.X.Type())
		e.setVal(fr, x, Term{fmt.Sprintf("(%s_f%d %s)", s, x.Field, sv.S), e.sortOf(u.Field(x.Field).Type())})
	case *ssa.IndexAddr:
		e.indexAddr(fr, x, st, reach, pos)
	case *ssa.Index:
		e.index(fr, x, st, reach, pos)
	case *ssa.Slice:
		e.sliceOp(fr, x, st, reach, pos)
	case *ssa.MakeSlice:
		ln := e.val(fr, x.Len)
		cp := e.val(fr, x.Cap)
		el := x.Type().Underlying().(*types.Slice).Elem()
		e.safe(fr, "make", reach, T(SBool, "(and (<= 0 %s) (<= %s %s) (<= %s %d))", ln.S, ln.S, cp.S, cp.S, maxElems(el)), pos)
		ref := e.allocRef(st, reach)
		es := e.sortOf(el)
		mk := e.memKey(es)
		zeroArr := Term{fmt.Sprintf("((as const %s) %s)", arraySort(SInt, es), e.zero(el).S), arraySort(SInt, es)}
		e.heapSet(st, mk, store(e.heapGet(st, mk), ref, zeroArr))
		e.setVal(fr, x, T(SSlice, "(mk_slice %s 0 %s %s)", ref.S, ln.S, cp.S))
	case *ssa.MakeMap:
		ref := e.allocRef(st, reach)
		mt := x.Type().Underlying().(*types.Map)
		dk, vk, lk, ks, vs := e.mapKeys(mt)
		e.heapSet(st, dk, store(e.heapGet(st, dk), ref, Term{fmt.Sprintf("((as const %s) false)", arraySort(ks, SBool)), ""}))
		_ = vk
		_ = vs
		e.heapSet(st, lk, store(e.heapGet(st, lk), ref, Term{"0", SInt}))
		fr.vals[x] = ref
	case *ssa.MakeChan:
		fr.vals[x] = e.allocRef(st, reach)
	case *ssa.MakeClosure:
		ref := e.allocRef(st, reach)
		fr.vals[x] = ref
	case *ssa.Store:
		a := e.addrOf(fr, x.Addr, reach, pos)
		if a.kind == ACell || a.kind == AStructPtr {
			e.safe(fr, "nil", reach, T(SBool, "(not (= %s 0))", a.ref.S), pos)
		}
		v := e.val(fr, x.Val)
		// conditional store: the block is executed only under reach, but state merging at joins selects by edge
		e.storeTo(st, a, v)
	case *ssa.Lookup:
		e.lookup(fr, x, st, reach, pos)
	case *ssa.MapUpdate:
		e.mapUpdate(fr, x, st, reach, pos)
	case *ssa.Range:
		e.rangeInit(fr, x, st, reach)
	case *ssa.Next:
		e.rangeNext(fr, x, st, reach)
	case *ssa.Call:
		e.call(fr, x, x.Common(), st, reach, pos)
	case *ssa.Defer:
		fr.defers = append(fr.defers, deferred{reach, x})
	case *ssa.RunDefers:
		e.runDefers(fr, st, reach, pos)
	case *ssa.Go:
		e.problem("%s: go statement (outside subset)", fr.fn.Name())
	case *ssa.Select, *ssa.Send:
		e.problem("%s: channel operation (outside subset)", fr.fn.Name())
	case *ssa.Return:
		var rs []Term
		for _, r := range x.Results {
			rs = append(rs, e.val(fr, r))
		}
		fr.exits = append(fr.exits, &Exit{kind: "return", cond: reach, results: rs, st: st.clone(), pos: pos})
	case *ssa.Panic:
		ex := &Exit{kind: "panic", cond: reach, st: st.clone(), pos: pos, payload: e.val(fr, x.X), hasPayload: true, path: fr.path}
		fr.exits = append(fr.exits, ex)
		e.panicSiteClauses(fr, x, st, reach, pos)
	case *ssa.If, *ssa.Jump:
		return
	case *ssa.SliceToArrayPointer, *ssa.MultiConvert:
		e.problem("%s: unsupported instruction %T", fr.fn.Name(), ins)
		if v, ok := ins.(ssa.Value); ok {
			fr.vals[v] = e.freshTyped("unsup", v.Type(), reach, st)
		}
	default:
		e.problem("%s: unsupported instruction %T", fr.fn.Name(), ins)
		if v, ok := ins.(ssa.Value); ok {
			fr.vals[v] = e.freshTyped("unsup", v.Type(), reach, st)
		}
	}
}

// ---------------------------------------------------------------- arithmetic

func tdiv(a, b Term) Term { return T(SInt, "(tdiv %s %s)", a.S, b.S) }
func trem(a, b Term) Term { return T(SInt, "(trem %s %s)", a.S, b.S) }

func isConstInt(v ssa.Value) (*big.Int, bool) {
	c, ok := v.(*ssa.Const)
	if !ok || c.Value == nil {
		return nil, false
	}
	if _, _, isInt := intInfo(c.Type()); !isInt {
		return nil, false
	}
	n, ok := new(big.Int).SetString(c.Value.ExactString(), 10)
	return n, ok
}

func (e *Enc) binop(fr *Frame, x *ssa.BinOp, reach Term, pos string) Term {
	a, b := e.val(fr, x.X), e.val(fr, x.Y)
	t := x.X.Type()
	rs := e.sortOf(x.Type())
	switch a.Sort {
	case SInt:
		if _, _, isInt := intInfo(t); !isInt {
			// pointers, maps, chans, funcs: only == and !=
			switch x.Op {
			case token.EQL:
				return eq(a, b)
			case token.NEQ:
				return not(eq(a, b))
			}
			e.problem("binop %s on %s", x.Op, t)
			return e.fresh("binop", rs)
		}
		switch x.Op {
		case token.ADD:
			return wrapLin(T(SInt, "(+ %s %s)", a.S, b.S), t)
		case token.SUB:
			return wrapLin(T(SInt, "(- %s %s)", a.S, b.S), t)
		case token.MUL:
			return wrapMod(T(SInt, "(* %s %s)", a.S, b.S), t)
		case token.QUO:
			e.safe(fr, "div", reach, not(eq(b, Term{"0", SInt})), pos)
			return wrapLin(tdiv(a, b), t)
		case token.REM:
			e.safe(fr, "div", reach, not(eq(b, Term{"0", SInt})), pos)
			return trem(a, b)
		case token.EQL:
			return eq(a, b)
		case token.NEQ:
			return not(eq(a, b))
		case token.LSS:
			return T(SBool, "(< %s %s)", a.S, b.S)
		case token.LEQ:
			return T(SBool, "(<= %s %s)", a.S, b.S)
		case token.GTR:
			return T(SBool, "(> %s %s)", a.S, b.S)
		case token.GEQ:
			return T(SBool, "(>= %s %s)", a.S, b.S)
		case token.AND:
			if n, ok := isConstInt(x.Y); ok {
				if m := new(big.Int).Add(n, big.NewInt(1)); n.Sign() >= 0 && m.BitLen() > 0 && new(big.Int).And(m, n).Sign() == 0 {
					return T(SInt, "(mod %s %s)", a.S, m.String())
				}
			}
			return e.bitop("bitand", a, b, t)
		case token.OR:
			return e.bitop("bitor", a, b, t)
		case token.XOR:
			return e.bitop("bitxor", a, b, t)
		case token.AND_NOT:
			return e.bitop("bitandnot", a, b, t)
		case token.SHL:
			bits, _, _ := intInfo(t)
			if _, sgn, _ := intInfo(x.Y.Type()); sgn {
				if _, isC := isConstInt(x.Y); !isC {
					e.safe(fr, "shift", reach, T(SBool, "(>= %s 0)", b.S), pos)
				}
			}
			if n, ok := isConstInt(x.Y); ok && n.IsInt64() && n.Int64() < int64(bits) {
				return wrapMod(T(SInt, "(* %s %s)", a.S, pow2(int(n.Int64())).String()), t)
			}
			// case table: every branch is linear in a
			chain := "0"
			for i := bits - 1; i >= 0; i-- {
				chain = fmt.Sprintf("(ite (= %s %d) %s %s)", b.S, i, wrapMod(T(SInt, "(* %s %s)", a.S, pow2(i).String()), t).S, chain)
			}
			return Term{chain, SInt}
		case token.SHR:
			bits, _, _ := intInfo(t)
			if _, sgn, _ := intInfo(x.Y.Type()); sgn {
				if _, isC := isConstInt(x.Y); !isC {
					e.safe(fr, "shift", reach, T(SBool, "(>= %s 0)", b.S), pos)
				}
			}
			if n, ok := isConstInt(x.Y); ok && n.IsInt64() && n.Int64() < int64(bits) {
				return T(SInt, "(div %s %s)", a.S, pow2(int(n.Int64())).String())
			}
			return T(SInt, "(ite (>= %s %d) (ite (< %s 0) (- 1) 0) (shrc %s %s))", b.S, bits, a.S, a.S, b.S)
		}
	case SBool:
		switch x.Op {
		case token.EQL:
			return eq(a, b)
		case token.NEQ:
			return not(eq(a, b))
		case token.AND, token.LAND:
			return and(a, b)
		case token.OR, token.LOR:
			return or(a, b)
		}
	case SStr:
		switch x.Op {
		case token.ADD:
			r := e.def("cat", T(SStr, "(str_cat %s %s)", a.S, b.S))
			e.assume(tTrue, T(SBool, "(= (str_len %s) (+ (str_len %s) (str_len %s)))", r.S, a.S, b.S))
			return r
		case token.EQL:
			return eq(a, b)
		case token.NEQ:
			return not(eq(a, b))
		case token.LSS:
			return T(SBool, "(str_lt %s %s)", a.S, b.S)
		case token.GTR:
			return T(SBool, "(str_lt %s %s)", b.S, a.S)
		case token.LEQ:
			return T(SBool, "(not (str_lt %s %s))", b.S, a.S)
		case token.GEQ:
			return T(SBool, "(not (str_lt %s %s))", a.S, b.S)
		}
	case SF64:
		switch x.Op {
		case token.ADD:
			return T(SF64, "(fp.add RNE %s %s)", a.S, b.S)
		case token.SUB:
			return T(SF64, "(fp.sub RNE %s %s)", a.S, b.S)
		case token.MUL:
			return T(SF64, "(fp.mul RNE %s %s)", a.S, b.S)
		case token.QUO:
			return T(SF64, "(fp.div RNE %s %s)", a.S, b.S)
		case token.EQL:
			return T(SBool, "(fp.eq %s %s)", a.S, b.S)
		case token.NEQ:
			return T(SBool, "(not (fp.eq %s %s))", a.S, b.S)
		case token.LSS:
			return T(SBool, "(fp.lt %s %s)", a.S, b.S)
		case token.LEQ:
			return T(SBool, "(fp.leq %s %s)", a.S, b.S)
		case token.GTR:
			return T(SBool, "(fp.gt %s %s)", a.S, b.S)
		case token.GEQ:
			return T(SBool, "(fp.geq %s %s)", a.S, b.S)
		}
	case SIface:
		switch x.Op {
		case token.EQL, token.NEQ:
			// Go panics when two interface values of the same uncomparable dynamic type (slice, map, func, or a
			// struct holding one) are compared
			if !isNilConst(x.X) && !isNilConst(x.Y) && !comparableBoxed(x.X) && !comparableBoxed(x.Y) {
				e.usesUncomparable = true
				e.safe(fr, "comparable", reach, T(SBool, "(not (and (= (tag %s) (tag %s)) (uncomparable_tag (tag %s))))", a.S, b.S, a.S), pos)
			}
			if x.Op == token.EQL {
				return e.ifaceEq(a, b)
			}
			return not(e.ifaceEq(a, b))
		}
	default:
		switch x.Op {
		case token.EQL:
			return eq(a, b)
		case token.NEQ:
			return not(eq(a, b))
		}
	}
	e.problem("%s: unsupported binop %s on %s", fr.fn.Name(), x.Op, t)
	return e.fresh("binop", rs)
}

// interface equality: identical boxes are equal; the solver's = on Iface is value equality of (tag, payload) because
// box_T is a function of the payload.  Comparable payloads (ints, strings, bools, pointers) box injectively.
func (e *Enc) ifaceEq(a, b Term) Term { return eq(a, b) }

func isNilConst(v ssa.Value) bool {
	c, ok := v.(*ssa.Const)
	return ok && c.Value == nil
}

// comparableBoxed: an interface value made on the spot from a value of a comparable static type
func comparableBoxed(v ssa.Value) bool {
	if mi, ok := v.(*ssa.MakeInterface); ok {
		return types.Comparable(mi.X.Type())
	}
	return false
}

func (e *Enc) bitop(name string, a, b Term, t types.Type) Term {
	r := e.def(name, T(SInt, "(%s %s %s)", name, a.S, b.S))
	e.assume(tTrue, inRange(r, t))
	return r
}

func (e *Enc) unop(fr *Frame, x *ssa.UnOp, st *State, reach Term, pos string) {
	switch x.Op {
	case token.MUL: // load
		a := e.addrOf(fr, x.X, reach, pos)
		if a.kind == ACell || a.kind == AStructPtr {
			if _, isAlloc := x.X.(*ssa.Alloc); !isAlloc {
				e.safe(fr, "nil", reach, T(SBool, "(not (= %s 0))", a.ref.S), pos)
			}
		}
		v := e.def(x.Name()+fr.suffix, e.load(st, a))
		fr.vals[x] = v
		if a.kind != AConstGlobal {
			g := reach
			if a.kind == AField || a.kind == ACell || a.kind == AElem {
				// only allocated objects carry the heap invariant
				g = and(reach, T(SBool, "(and (> %s 0) (< %s %s))", a.ref.S, a.ref.S, e.heapGet(st, e.allocKey()).S))
			}
			e.loadFacts(st, g, v, x.Type())
		}
	case token.NOT:
		e.setVal(fr, x, not(e.val(fr, x.X)))
	case token.SUB:
		v := e.val(fr, x.X)
		if v.Sort == SF64 {
			e.setVal(fr, x, T(SF64, "(fp.neg %s)", v.S))
		} else {
			e.setVal(fr, x, wrapLin(T(SInt, "(- %s)", v.S), x.Type()))
		}
	case token.XOR:
		v := e.val(fr, x.X)
		_, signed, _ := intInfo(x.Type())
		if signed {
			e.setVal(fr, x, T(SInt, "(- (- %s) 1)", v.S))
		} else {
			_, hi := intRange(x.Type())
			e.setVal(fr, x, T(SInt, "(- %s %s)", hi.String(), v.S))
		}
	case token.ARROW:
		e.problem("%s: channel receive (outside subset)", fr.fn.Name())
		if x.CommaOk {
			fr.tuples[x] = []Term{e.freshTyped("recv", x.Type().(*types.Tuple).At(0).Type(), reach, st), e.fresh("recvok", SBool)}
		} else {
			fr.vals[x] = e.freshTyped("recv", x.Type(), reach, st)
		}
	default:
		e.problem("%s: unsupported unop %s", fr.fn.Name(), x.Op)
		fr.vals[x] = e.freshTyped("unop", x.Type(), reach, st)
	}
}

func (e *Enc) convert(fr *Frame, x *ssa.Convert, st *State, reach Term) Term {
	v := e.val(fr, x.X)
	from, to := x.X.Type(), x.Type()
	fs, ts := e.sortOf(from), e.sortOf(to)
	_, _, fromInt := intInfo(from)
	tbits, _, toInt := intInfo(to)
	switch {
	case fromInt && toInt:
		flo, fhi := intRange(from)
		tlo, thi := intRange(to)
		if flo.Cmp(tlo) >= 0 && fhi.Cmp(thi) <= 0 {
			return v // widening
		}
		_ = tbits
		return wrapMod(v, to)
	case fromInt && ts == SF64:
		if e.topCon != nil && e.topCon.AbstractFloat {
			return e.fresh("i2f_abs", SF64)
		}
		r := e.def("i2f", T(SF64, "((_ to_fp 11 53) RNE (to_real %s))", v.S))
		// helper facts the solvers do not derive through to_real: zero maps to +0, nothing else maps to a zero, sign is kept
		e.assume(tTrue, T(SBool, "(= (= %s 0) (fp.isZero %s))", v.S, r.S))
		e.assume(tTrue, T(SBool, "(=> (= %s 0) (= %s (_ +zero 11 53)))", v.S, r.S))
		e.assume(tTrue, T(SBool, "(and (not (fp.isNaN %s)) (not (fp.isInfinite %s)) (= (< %s 0) (fp.isNegative %s)))", r.S, r.S, v.S, r.S))
		return r
	case fs == SF64 && toInt:
		r := e.fresh("f2i", SInt)
		// exact when the truncated value is in range; otherwise implementation-defined (left unconstrained)
		e.assume(tTrue, T(SBool, "(=> (and (not (fp.isNaN %s)) (not (fp.isInfinite %s)) (fp.leq %s %s) (fp.leq %s %s)) (= %s (to_int_rtz %s)))",
			v.S, v.S, fpLit(-9.2e18).S, v.S, v.S, fpLit(9.2e18).S, r.S, v.S))
		e.assume(tTrue, inRange(r, to))
		return r
	case fs == SF64 && ts == SF64:
		return v
	case fs == SStr && ts == SSlice:
		// []byte(s) or []rune(s): fresh array with the string's content (bytes only modelled)
		ref := e.allocRef(st, reach)
		r := e.def("str2slice", T(SSlice, "(mk_slice %s 0 (str_len %s) (str_len %s))", ref.S, v.S, v.S))
		el := to.Underlying().(*types.Slice).Elem()
		if b, ok := el.Underlying().(*types.Basic); ok && b.Kind() == types.Uint8 {
			mk := e.memKey(SInt)
			e.heapSet(st, mk, store(e.heapGet(st, mk), ref, T(arraySort(SInt, SInt), "(str_bytes %s)", v.S)))
		} else {
			// runes: length is nrunes
			rr := e.def("str2runes", T(SSlice, "(mk_slice %s 0 (str_nrunes %s) (str_nrunes %s))", ref.S, v.S, v.S))
			mk := e.memKey(SInt)
			e.heapSet(st, mk, store(e.heapGet(st, mk), ref, T(arraySort(SInt, SInt), "(str_runes %s)", v.S)))
			return rr
		}
		return r
	case fs == SSlice && ts == SStr:
		r := e.fresh("slice2str", SStr)
		el := from.Underlying().(*types.Slice).Elem()
		if b, ok := el.Underlying().(*types.Basic); ok && b.Kind() == types.Uint8 {
			e.assume(tTrue, T(SBool, "(= (str_len %s) (s_len %s))", r.S, v.S))
		} else {
			e.assume(tTrue, T(SBool, "(>= (str_len %s) 0)", r.S))
		}
		return r
	case fromInt && ts == SStr:
		r := e.fresh("rune2str", SStr)
		e.assume(tTrue, T(SBool, "(and (>= (str_len %s) 1) (<= (str_len %s) 4))", r.S, r.S))
		return r
	case fs == ts:
		return v
	}
	e.problem("%s: unsupported conversion %s -> %s", fr.fn.Name(), from, to)
	return e.freshTyped("conv", to, reach, st)
}

// ---------------------------------------------------------------- interfaces

func (e *Enc) typeAssert(fr *Frame, x *ssa.TypeAssert, st *State, reach Term, pos string) {
	v := e.val(fr, x.X)
	at := x.AssertedType
	var ok, res Term
	if _, isIface := at.Underlying().(*types.Interface); isIface {
		ok = e.implements(v, at)
		res = v
	} else {
		ok = eq(T(SInt, "(tag %s)", v.S), e.typeID(at))
		res = e.def(x.Name()+fr.suffix, e.unbox(at, v))
		e.assume(tTrue, implies(ok, eq(e.box(at, res), v)))
		alloc := e.heapGet(st, e.allocKey())
		for _, f := range e.typeFacts(res, at, alloc) {
			e.assume(tTrue, implies(ok, f))
		}
		if _, isPtr := at.Underlying().(*types.Pointer); isPtr {
			// object invariant: typed nil pointers are never boxed
			e.assume(tTrue, implies(ok, T(SBool, "(not (= %s 0))", res.S)))
		}
	}
	okd := e.def(x.Name()+"_ok"+fr.suffix, ok)
	if x.CommaOk {
		fr.tuples[x] = []Term{ite(okd, res, e.zero(at)), okd}
		return
	}
	e.safe(fr, "assert", reach, okd, pos)
	fr.vals[x] = res
}

// implements: the dynamic type of v implements interface type it.
func (e *Enc) implements(v Term, it types.Type) Term {
	iface := it.Underlying().(*types.Interface)
	if iface.NumMethods() == 0 {
		return not(eq(v, Term{"nil_iface", SIface}))
	}
	p := e.implPred(it)
	e.declare(fmt.Sprintf("(declare-fun %s (Int) Bool)", p))
	e.declare(fmt.Sprintf("(assert (not (%s 0)))", p))
	if e.typeOf["\x00iface:"+p] == nil {
		e.typeOf["\x00iface:"+p] = it
	}
	return T(SBool, "(%s (tag %s))", p, v.S)
}

// ---------------------------------------------------------------- allocation, indexing, slicing

func (e *Enc) alloc(fr *Frame, x *ssa.Alloc, st *State, reach Term) {
	el := x.Type().Underlying().(*types.Pointer).Elem()
	ref := e.allocRef(st, reach)
	fr.vals[x] = ref
	if e.isElemPtrType(el) {
		// a lone value of a type whose pointers are element pointers: a one-element array
		s := e.sortOf(el)
		mk := e.memKey(s)
		zeroArr := Term{fmt.Sprintf("((as const %s) %s)", arraySort(SInt, s), e.zero(el).S), arraySort(SInt, s)}
		e.heapSet(st, mk, store(e.heapGet(st, mk), ref, zeroArr))
		fr.addrs[x] = &Addr{kind: AElem, key: mk, ref: ref, idx: Term{"0", SInt}, sort: s, typ: el}
		fr.vals[x] = e.elemPtr(ref, Term{"0", SInt})
		return
	}
	switch u := el.Underlying().(type) {
	case *types.Array:
		es := e.sortOf(u.Elem())
		mk := e.memKey(es)
		zeroArr := Term{fmt.Sprintf("((as const %s) %s)", arraySort(SInt, es), e.zero(u.Elem()).S), arraySort(SInt, es)}
		e.heapSet(st, mk, store(e.heapGet(st, mk), ref, zeroArr))
		fr.addrs[x] = &Addr{kind: AArrMem, key: mk, ref: ref, sort: es, typ: el}
	case *types.Struct:
		for i := 0; i < u.NumFields(); i++ {
			key, _, ft := e.fieldKey(el, i)
			e.heapSet(st, key, store(e.heapGet(st, key), ref, e.zero(ft)))
		}
		fr.addrs[x] = &Addr{kind: AStructPtr, ref: ref, typ: el, sort: e.sortOf(el)}
		if !x.Heap {
			// a struct-valued local whose address does not escape (go/ssa's escape check): no callee can write it,
			// so its fields survive every havoc (e.g. the copy of a struct parameter whose fields are read after a call)
			pref := e.def("prot", ref)
			for i := 0; i < u.NumFields(); i++ {
				key, _, _ := e.fieldKey(el, i)
				e.protected[key] = append(e.protected[key], pref)
			}
		}
		for _, g := range e.w.CS.Ghosts {
			if g.AllocType != "" && g.AllocType == types.TypeString(el, nil) {
				key, srt := e.ghostKey(g.Name)
				e.heapSet(st, key, store(e.heapGet(st, key), ref, e.zeroOfSort(srt, nil)))
			}
		}
	default:
		s := e.sortOf(el)
		key := e.cellKey(s)
		e.heapSet(st, key, store(e.heapGet(st, key), ref, e.zero(el)))
		fr.addrs[x] = &Addr{kind: ACell, key: key, ref: ref, sort: s, typ: el}
		if cellWrittenOnlyHere(x) {
			e.roCells = append(e.roCells, roCell{key, ref, s})
		}
	}
}

type roCell struct {
	key  string
	ref  Term
	sort string
}

// cellWrittenOnlyHere: a local variable that lives in a heap cell only because closures capture it, where no closure
// writes it and its address goes nowhere else.  Only the stores of the declaring function (which are encoded) can
// change such a cell, so its value survives any call, including calls that run the closures.
func cellWrittenOnlyHere(x *ssa.Alloc) bool {
	refs := x.Referrers()
	if refs == nil {
		return false
	}
	for _, r := range *refs {
		switch u := r.(type) {
		case *ssa.Store:
			if u.Val == ssa.Value(x) {
				return false
			}
		case *ssa.UnOp, *ssa.DebugRef:
		case *ssa.MakeClosure:
			fn, ok := u.Fn.(*ssa.Function)
			if !ok {
				return false
			}
			for i, b := range u.Bindings {
				if b != ssa.Value(x) {
					continue
				}
				fv := fn.FreeVars[i]
				frefs := fv.Referrers()
				if frefs == nil {
					return false
				}
				for _, fr := range *frefs {
					switch fr.(type) {
					case *ssa.UnOp, *ssa.DebugRef:
					default:
						return false
					}
				}
			}
		default:
			return false
		}
	}
	return true
}

func (e *Enc) indexAddr(fr *Frame, x *ssa.IndexAddr, st *State, reach Term, pos string) {
	idx := e.val(fr, x.Index)
	switch u := x.X.Type().Underlying().(type) {
	case *types.Slice:
		s := e.val(fr, x.X)
		e.safe(fr, "index", reach, T(SBool, "(and (<= 0 %s) (< %s (s_len %s)))", idx.S, idx.S, s.S), pos)
		es := e.sortOf(u.Elem())
		fr.addrs[x] = &Addr{kind: AElem, key: e.memKey(es), ref: T(SInt, "(s_arr %s)", s.S), idx: e.def("ix", T(SInt, "(+ (s_off %s) %s)", s.S, idx.S)), sort: es, typ: u.Elem()}
	case *types.Pointer: // pointer to array
		arr := u.Elem().Underlying().(*types.Array)
		e.safe(fr, "index", reach, T(SBool, "(and (<= 0 %s) (< %s %d))", idx.S, idx.S, arr.Len()), pos)
		pa := e.addrOf(fr, x.X, reach, pos)
		if pa.kind == AArrMem {
			fr.addrs[x] = &Addr{kind: AElem, key: pa.key, ref: pa.ref, idx: idx, sort: pa.sort, typ: arr.Elem()}
			return
		}
		fr.addrs[x] = &Addr{kind: AArrElem, parent: pa, idx: idx, sort: e.sortOf(arr.Elem()), typ: arr.Elem()}
	default:
		e.problem("%s: IndexAddr on %s", fr.fn.Name(), x.X.Type())
	}
}

func (e *Enc) index(fr *Frame, x *ssa.Index, st *State, reach Term, pos string) {
	idx := e.val(fr, x.Index)
	v := e.val(fr, x.X)
	switch u := x.X.Type().Underlying().(type) {
	case *types.Basic: // string
		e.safe(fr, "index", reach, T(SBool, "(and (<= 0 %s) (< %s (str_len %s)))", idx.S, idx.S, v.S), pos)
		r := e.def(x.Name()+fr.suffix, T(SInt, "(str_at %s %s)", v.S, idx.S))
		e.assume(tTrue, T(SBool, "(and (<= 0 %s) (<= %s 255))", r.S, r.S))
		fr.vals[x] = r
	case *types.Array:
		e.safe(fr, "index", reach, T(SBool, "(and (<= 0 %s) (< %s %d))", idx.S, idx.S, u.Len()), pos)
		e.setVal(fr, x, sel(v, idx, e.sortOf(u.Elem())))
	default:
		e.problem("%s: Index on %s", fr.fn.Name(), x.X.Type())
		fr.vals[x] = e.freshTyped("index", x.Type(), reach, st)
	}
}

func (e *Enc) sliceOp(fr *Frame, x *ssa.Slice, st *State, reach Term, pos string) {
	v := e.val(fr, x.X)
	var lo, hi, mx Term
	if x.Low != nil {
		lo = e.val(fr, x.Low)
	} else {
		lo = Term{"0", SInt}
	}
	switch x.X.Type().Underlying().(type) {
	case *types.Basic: // string
		if x.High != nil {
			hi = e.val(fr, x.High)
		} else {
			hi = T(SInt, "(str_len %s)", v.S)
		}
		e.safe(fr, "slice", reach, T(SBool, "(and (<= 0 %s) (<= %s %s) (<= %s (str_len %s)))", lo.S, lo.S, hi.S, hi.S, v.S), pos)
		r := e.def(x.Name()+fr.suffix, T(SStr, "(str_sub %s %s %s)", v.S, lo.S, hi.S))
		e.assume(tTrue, T(SBool, "(= (str_len %s) (- %s %s))", r.S, hi.S, lo.S))
		if x.Low == nil && x.High == nil {
			e.assume(tTrue, eq(r, v))
		}
		fr.vals[x] = r
	case *types.Slice:
		if x.High != nil {
			hi = e.val(fr, x.High)
		} else {
			hi = T(SInt, "(s_len %s)", v.S)
		}
		if x.Max != nil {
			mx = e.val(fr, x.Max)
		} else {
			mx = T(SInt, "(s_cap %s)", v.S)
		}
		e.safe(fr, "slice", reach, T(SBool, "(and (<= 0 %s) (<= %s %s) (<= %s %s) (<= %s (s_cap %s)))", lo.S, lo.S, hi.S, hi.S, mx.S, mx.S, v.S), pos)
		e.setVal(fr, x, T(SSlice, "(mk_slice (s_arr %s) (+ (s_off %s) %s) (- %s %s) (- %s %s))", v.S, v.S, lo.S, hi.S, lo.S, mx.S, lo.S))
	case *types.Pointer: // pointer to array
		pa, ok := fr.addrs[x.X]
		arr, isArr := x.X.Type().Underlying().(*types.Pointer).Elem().Underlying().(*types.Array)
		if !ok || pa.kind != AArrMem || !isArr {
			e.problem("%s: slicing an array pointer that is not a local array", fr.fn.Name())
			fr.vals[x] = e.freshTyped("slice", x.Type(), reach, st)
			return
		}
		n := intLit64(arr.Len())
		if x.High != nil {
			hi = e.val(fr, x.High)
		} else {
			hi = n
		}
		e.safe(fr, "slice", reach, T(SBool, "(and (<= 0 %s) (<= %s %s) (<= %s %s))", lo.S, lo.S, hi.S, hi.S, n.S), pos)
		e.setVal(fr, x, T(SSlice, "(mk_slice %s %s (- %s %s) (- %s %s))", pa.ref.S, lo.S, hi.S, lo.S, n.S, lo.S))
	default:
		e.problem("%s: Slice on %s", fr.fn.Name(), x.X.Type())
		fr.vals[x] = e.freshTyped("slice", x.Type(), reach, st)
	}
}

// ---------------------------------------------------------------- maps

func (e *Enc) mapKeys(mt *types.Map) (dom, val, ln, ks, vs string) {
	ks, vs = e.sortOf(mt.Key()), e.sortOf(mt.Elem())
	id := ks + ":" + vs
	dom = e.regHeap("MD:"+id, arraySort(SInt, arraySort(ks, SBool)))
	val = e.regHeap("MV:"+id, arraySort(SInt, arraySort(ks, vs)))
	ln = e.regHeap("ML:"+id, arraySort(SInt, SInt))
	return
}

func (e *Enc) lookup(fr *Frame, x *ssa.Lookup, st *State, reach Term, pos string) {
	mt, isMap := x.X.Type().Underlying().(*types.Map)
	if !isMap {
		// string index with non-constant handled by Index; Lookup on string
		v, idx := e.val(fr, x.X), e.val(fr, x.Index)
		e.safe(fr, "index", reach, T(SBool, "(and (<= 0 %s) (< %s (str_len %s)))", idx.S, idx.S, v.S), pos)
		r := e.def(x.Name()+fr.suffix, T(SInt, "(str_at %s %s)", v.S, idx.S))
		e.assume(tTrue, T(SBool, "(and (<= 0 %s) (<= %s 255))", r.S, r.S))
		fr.vals[x] = r
		return
	}
	m, k := e.val(fr, x.X), e.val(fr, x.Index)
	dk, vk, _, ks, vs := e.mapKeys(mt)
	// nil map reads as empty
	in := e.def("in", T(SBool, "(and (not (= %s 0)) (select (select %s %s) %s))", m.S, e.heapGet(st, dk).S, m.S, k.S))
	_ = ks
	raw := e.def("mv", sel(sel(e.heapGet(st, vk), m, arraySort(ks, vs)), k, vs))
	e.loadFacts(st, tTrue, raw, mt.Elem())
	v := ite(in, raw, e.zero(mt.Elem()))
	if x.CommaOk {
		fr.tuples[x] = []Term{e.def(x.Name()+fr.suffix, v), in}
	} else {
		e.setVal(fr, x, v)
	}
}

func (e *Enc) mapUpdate(fr *Frame, x *ssa.MapUpdate, st *State, reach Term, pos string) {
	mt := x.Map.Type().Underlying().(*types.Map)
	m, k, v := e.val(fr, x.Map), e.val(fr, x.Key), e.val(fr, x.Value)
	e.safe(fr, "nilmap", reach, T(SBool, "(not (= %s 0))", m.S), pos)
	dk, vk, lk, ks, vs := e.mapKeys(mt)
	d := e.heapGet(st, dk)
	was := e.def("was", T(SBool, "(select (select %s %s) %s)", d.S, m.S, k.S))
	e.heapSet(st, dk, store(d, m, store(sel(d, m, arraySort(ks, SBool)), k, tTrue)))
	vv := e.heapGet(st, vk)
	e.heapSet(st, vk, store(vv, m, store(sel(vv, m, arraySort(ks, vs)), k, v)))
	l := e.heapGet(st, lk)
	e.heapSet(st, lk, store(l, m, T(SInt, "(+ (select %s %s) (ite %s 0 1))", l.S, m.S, was.S)))
}

// ---------------------------------------------------------------- range over map / string

type rangeState struct {
	x      *ssa.Range
	isMap  bool
	mapRef Term
	str    Term
}

// rangeSeenKey: the ghost set of keys already produced by a range over a map (one per Range instruction).
func (e *Enc) rangeSeenKey(fr *Frame, x *ssa.Range) (string, string) {
	mt := x.X.Type().Underlying().(*types.Map)
	ks := e.sortOf(mt.Key())
	key := "RS:" + mangle(fr.fn.String()) + ":" + x.Name() + fr.suffix
	e.regHeap(key, arraySort(ks, SBool))
	return key, ks
}

func (e *Enc) rangeInit(fr *Frame, x *ssa.Range, st *State, reach Term) {
	// the iterator itself carries no SMT value; Next consults the operand
	fr.vals[x] = Term{"0", SInt}
	if _, isMap := x.X.Type().Underlying().(*types.Map); isMap {
		key, ks := e.rangeSeenKey(fr, x)
		e.heapSet(st, key, Term{fmt.Sprintf("((as const %s) false)", arraySort(ks, SBool)), arraySort(ks, SBool)})
	} else if b, isStr := x.X.Type().Underlying().(*types.Basic); isStr && b.Info()&types.IsString != 0 {
		e.heapSet(st, e.rangeCountKey(fr, x), Term{"0", SInt})
	}
}

// rangeCountKey: ghost number of code points already produced by a range over a string (one per Range instruction).
func (e *Enc) rangeCountKey(fr *Frame, x *ssa.Range) string {
	key := "RN:" + mangle(fr.fn.String()) + ":" + x.Name() + fr.suffix
	e.regHeap(key, SInt)
	return key
}

func (e *Enc) rangeNext(fr *Frame, x *ssa.Next, st *State, reach Term) {
	rng := x.Iter.(*ssa.Range)
	tup := x.Type().(*types.Tuple)
	ok := e.fresh("next_ok", SBool)
	if x.IsString {
		s := e.val(fr, rng.X)
		i := e.fresh("next_i", SInt)
		r := e.fresh("next_r", SInt)
		e.assume(tTrue, implies(ok, T(SBool, "(and (<= 0 %s) (< %s (str_len %s)) (<= 0 %s) (<= %s 1114111))", i.S, i.S, s.S, r.S, r.S)))
		// Go's range over a string visits the code points in order: the k-th iteration (k from 0) starts at byte
		// offset cpoff(s, k), and the loop ends after str_nrunes(s) iterations (cpoff: spec/40_str.smt2)
		ck := e.rangeCountKey(fr, rng)
		k := e.def("next_n", e.heapGet(st, ck))
		e.assume(tTrue, T(SBool, "(and (<= 0 %s) (= %s (< %s (str_nrunes %s))) (=> %s (= %s (cpoff %s %s))))", k.S, ok.S, k.S, s.S, ok.S, i.S, s.S, k.S))
		e.heapSet(st, ck, ite(ok, T(SInt, "(+ %s 1)", k.S), k))
		fr.tuples[x] = []Term{ok, i, r}
		return
	}
	mt := rng.X.Type().Underlying().(*types.Map)
	m := e.val(fr, rng.X)
	dk, vk, _, ks, vs := e.mapKeys(mt)
	k := e.freshTyped("next_k", tup.At(1).Type(), reach, st)
	in := T(SBool, "(and (not (= %s 0)) (select (select %s %s) %s))", m.S, e.heapGet(st, dk).S, m.S, k.S)
	e.assume(tTrue, implies(ok, in))
	// every key is produced at most once, in an arbitrary order; when the iteration ends every present key was produced
	skey, ksrt := e.rangeSeenKey(fr, rng)
	seen := e.heapGet(st, skey)
	e.assume(tTrue, implies(ok, not(sel(seen, k, SBool))))
	e.assume(tTrue, implies(not(ok), T(SBool, "(forall ((rk %s)) (! (=> (and (not (= %s 0)) (select (select %s %s) rk)) (select %s rk)) :pattern ((select %s rk))))",
		ksrt, m.S, e.heapGet(st, dk).S, m.S, seen.S, seen.S)))
	e.heapSet(st, skey, ite(ok, store(seen, k, tTrue), seen))
	v := e.def("next_v", sel(sel(e.heapGet(st, vk), m, arraySort(ks, vs)), k, vs))
	e.loadFacts(st, tTrue, v, tup.At(2).Type())
	fr.tuples[x] = []Term{ok, k, v}
}
