package main

import (
	"flag"
	"regexp"
	"fmt"
	"os"
	"sort"
	"strings"
	"time"
)

var noEvidence bool

func env(k, d string) string {
	if v := os.Getenv(k); v != "" {
		return v
	}
	return d
}

func main() {
	repo := flag.String("repo", env("GVC_REPO", "/repo"), "repository root")
	verif := flag.String("verif", env("GVC_VERIF", "/verif"), "verif root")
	keep := flag.String("keep", "", "directory to keep SMT scripts in")
	flag.BoolVar(&noEvidence, "noevidence", false, "do not write evidence/replay files under verif (used by selftest)")
	flag.Parse()
	args := flag.Args()
	if len(args) == 0 {
		fmt.Fprintln(os.Stderr, "usage: gvc [flags] func <name>... | check <prop> <tier> | claim <prop> | list")
		os.Exit(2)
	}
	switch args[0] {
	case "func":
		t0 := time.Now()
		w, err := LoadWorld(*repo, *verif, nil)
		if err != nil {
			fmt.Fprintln(os.Stderr, "load:", err)
			os.Exit(2)
		}
		fmt.Fprintf(os.Stderr, "loaded in %.1fs\n", time.Since(t0).Seconds())
		tier := env("VERIF_TIER", "quick")
		for _, name := range args[1:] {
			keys := w.matchFuncs(name)
			if len(keys) == 0 {
				fmt.Printf("no function matches %q\n", name)
				continue
			}
			for _, k := range keys {
				fn := w.Funcs[k]
				e := encodeFunction(w, fn, w.CS.Funcs[k])
				rs := checkFunction(e, tier, 0, *keep)
				fmt.Printf("== %s: %d obligations, %d lines\n", shortFuncName(k), len(e.obls), len(e.lines))
				for _, p := range e.problems {
					fmt.Printf("   problem: %s\n", p)
				}
				for _, r := range rs {
					want := "unsat"
					if r.Ob.Cover {
						want = "sat"
					}
					mark := "ok  "
					if r.Status != want {
						mark = "FAIL"
					}
					fmt.Printf("   %s %-8s %-70s %s %.2fs %s\n", mark, r.Status, r.Ob.Name, r.Ob.Pos, r.Secs, r.Solver)
					if r.Status != want && r.Model != nil {
						var ks []string
						for k := range r.Model {
							ks = append(ks, k)
						}
						sort.Strings(ks)
						for _, k := range ks {
							fmt.Printf("        %s = %s\n", k, r.Model[k])
						}
					}
				}
			}
		}
	case "script":
		// gvc script <func> <obligation-substring>: print the standalone SMT script of one obligation
		w, err := LoadWorld(*repo, *verif, nil)
		if err != nil {
			fmt.Fprintln(os.Stderr, "load:", err)
			os.Exit(2)
		}
		for _, k := range w.matchFuncs(args[1]) {
			e := encodeFunction(w, w.Funcs[k], w.CS.Funcs[k])
			for _, o := range e.obls {
				if strings.Contains(o.Name, args[2]) {
					fmt.Println(e.script(o, true))
					return
				}
			}
		}
	case "check":
		if len(args) < 2 {
			fmt.Fprintln(os.Stderr, "usage: gvc check <prop> [quick|thorough]")
			os.Exit(2)
		}
		tier := env("VERIF_TIER", "quick")
		if len(args) >= 3 {
			tier = args[2]
		}
		os.Exit(runCheck(*repo, *verif, args[1], tier, *keep, false))
	case "claim":
		os.Exit(runCheck(*repo, *verif, args[1], "quick", *keep, true))
	case "replay":
		os.Exit(runReplayFile(*repo, *verif, args[1]))
	case "selftest":
		os.Exit(runSelftest(*repo, *verif, args[1:]))
	default:
		fmt.Fprintln(os.Stderr, "unknown command", args[0])
		os.Exit(2)
	}
}

func (w *World) matchFuncs(name string) []string {
	var out []string
	if _, ok := w.Funcs[name]; ok {
		return []string{name}
	}
	if real, ok := w.Alias[repoModule+"/"+name]; ok {
		return []string{real}
	}
	if real, ok := w.Alias[name]; ok {
		return []string{real}
	}
	for k := range w.Funcs {
		s := shortFuncName(k)
		if unqual(s) == name {
			out = append(out, k)
			continue
		}
		if s == name || strings.HasSuffix(s, "."+name) || strings.HasSuffix(s, ")."+name) {
			out = append(out, k)
		}
	}
	sort.Strings(out)
	return out
}

var reQual = regexp.MustCompile(`[\w/-]+\.(\w+\))`)

// unqual turns "(*py.BigInt).Int" into "(*BigInt).Int" and "py.intAdd" into "intAdd".
func unqual(s string) string {
	if strings.HasPrefix(s, "(") {
		return reQual.ReplaceAllString(s, "$1")
	}
	if i := strings.LastIndex(s, "."); i >= 0 {
		return s[i+1:]
	}
	return s
}
