package main

import (
	"fmt"
	"sort"
	"golang.org/x/tools/go/ssa"
	"go/constant"
	"go/types"
	"math/big"
	"strings"
)

// TT is a term with the Go type it stands for (nil type = mathematical integer / plain boolean / nil literal).
type TT struct {
	Term
	T types.Type
}

type CEnv struct {
	e     *Enc
	vars  map[string]TT
	cells map[string]cellVar // locals that live in a heap cell (captured by a closure): the name denotes the cell's content in the current state
	cur   *State
	old   *State
	pre   *State // loop invariants: the state at loop entry (before the loop's havoc)
	qstack   []Term // bound variables of the enclosing quantifiers (typing facts about terms over them are closed)
	iterKey  string // loop invariants of a range over a string: the ghost count of code points already produced
	rangeKey string // loop invariants of a range over a map: the ghost set of keys already visited
	iter  *State // step clauses: the state at the start of the current iteration
	pkg   string
	guard Term
	depth int
}

type cellVar struct {
	key  string
	ref  Term
	sort string
	typ  types.Type
}

const sortNil = "NIL"

func (c *CEnv) sub(st *State) *CEnv {
	n := *c
	n.cur = st
	return &n
}

func (c *CEnv) evalBool(x CExpr) (Term, error) {
	t, err := c.eval(x)
	if err != nil {
		return Term{}, err
	}
	if t.Sort != SBool {
		return Term{}, fmt.Errorf("expected a boolean, got %s in %s", t.Sort, x)
	}
	return t.Term, nil
}

func (c *CEnv) resolveType(name string) (types.Type, error) {
	return c.e.w.lookupType(name, c.pkg)
}

func (c *CEnv) eval(x CExpr) (TT, error) {
	e := c.e
	switch n := x.(type) {
	case *CLit:
		switch n.V {
		case "true":
			return TT{tTrue, nil}, nil
		case "false":
			return TT{tFalse, nil}, nil
		case "nil":
			return TT{Term{"nil", sortNil}, nil}, nil
		}
		v, ok := new(big.Int).SetString(n.V, 0)
		if !ok {
			return TT{}, fmt.Errorf("bad integer literal %q", n.V)
		}
		return TT{intLit(v), nil}, nil
	case *CStr:
		return TT{e.strConst(n.V), types.Typ[types.String]}, nil
	case *CIdent:
		if cv, ok := c.cells[n.Name]; ok {
			return TT{sel(e.heapGet(c.cur, cv.key), cv.ref, cv.sort), cv.typ}, nil
		}
		if v, ok := c.vars[n.Name]; ok {
			return v, nil
		}
		return c.pkgObject(n.Name)
	case *CSel:
		if id, ok := n.X.(*CIdent); ok {
			if _, isVar := c.vars[id.Name]; !isVar && e.w.lookupObject(id.Name, c.pkg) == nil {
				// package-qualified object: py.None, big.X ...
				if obj := e.w.lookupObject(id.Name+"."+n.F, c.pkg); obj != nil {
					return c.objectValue(obj)
				}
			}
		}
		xv, err := c.eval(n.X)
		if err != nil {
			return TT{}, err
		}
		return c.selectField(xv, n.F)
	case *CIndex:
		if id, ok := n.X.(*CIdent); ok {
			if g := e.w.CS.Ghosts[id.Name]; g != nil {
				if _, shadow := c.vars[id.Name]; !shadow {
					i, err := c.eval(n.I)
					if err != nil {
						return TT{}, err
					}
					key, srt := e.ghostKey(id.Name)
					return TT{sel(e.heapGet(c.cur, key), i.Term, srt), nil}, nil
				}
			}
		}
		xv, err := c.eval(n.X)
		if err != nil {
			return TT{}, err
		}
		i, err := c.eval(n.I)
		if err != nil {
			return TT{}, err
		}
		return c.indexValue(xv, i)
	case *CSlice:
		return TT{}, fmt.Errorf("slice expressions are not supported in contracts: %s", x)
	case *CAssert:
		xv, err := c.eval(n.X)
		if err != nil {
			return TT{}, err
		}
		t, err := c.resolveType(n.T)
		if err != nil {
			return TT{}, err
		}
		if xv.Sort != SIface {
			return TT{}, fmt.Errorf("type assertion on non-interface %s", n.X)
		}
		return TT{e.unbox(t, xv.Term), t}, nil
	case *CUn:
		xv, err := c.eval(n.X)
		if err != nil {
			return TT{}, err
		}
		switch n.Op {
		case "!":
			if xv.Sort != SBool {
				return TT{}, fmt.Errorf("! on non-boolean %s", n.X)
			}
			return TT{not(xv.Term), nil}, nil
		case "-":
			return TT{T(SInt, "(- %s)", xv.S), nil}, nil
		}
	case *CBin:
		return c.evalBin(n)
	case *CQuant:
		saved, had := c.vars[n.Var]
		qv := Term{"q_" + n.Var + fmt.Sprintf("_%d", c.depth), SInt}
		var qt types.Type
		if n.VarT == "string" {
			qv.Sort = SStr
			qt = types.Typ[types.String]
		}
		c.depth++
		c.vars[n.Var] = TT{qv, qt}
		c.qstack = append(c.qstack, qv)
		defer func() {
			c.qstack = c.qstack[:len(c.qstack)-1]
			c.depth--
			if had {
				c.vars[n.Var] = saved
			} else {
				delete(c.vars, n.Var)
			}
		}()
		body, err := c.evalBool(n.Body)
		if err != nil {
			return TT{}, err
		}
		rng := tTrue
		if n.Lo != nil {
			lo, err := c.eval(n.Lo)
			if err != nil {
				return TT{}, err
			}
			hi, err := c.eval(n.Hi)
			if err != nil {
				return TT{}, err
			}
			rng = T(SBool, "(and (<= %s %s) (< %s %s))", lo.S, qv.S, qv.S, hi.S)
		}
		if n.Forall {
			return TT{T(SBool, "(forall ((%s %s)) %s)", qv.S, qv.Sort, implies(rng, body).S), nil}, nil
		}
		return TT{T(SBool, "(exists ((%s %s)) %s)", qv.S, qv.Sort, and(rng, body).S), nil}, nil
	case *CCall:
		return c.evalCall(n)
	case *CType:
		return TT{}, fmt.Errorf("type %s used as a value", n.T)
	}
	return TT{}, fmt.Errorf("cannot evaluate %s", x)
}

func (c *CEnv) pkgObject(name string) (TT, error) {
	obj := c.e.w.lookupObject(name, c.pkg)
	if obj == nil {
		return TT{}, fmt.Errorf("unknown identifier %q", name)
	}
	return c.objectValue(obj)
}

func (c *CEnv) objectValue(obj types.Object) (TT, error) {
	e := c.e
	switch o := obj.(type) {
	case *types.Const:
		switch o.Val().Kind() {
		case constant.Int:
			v, _ := new(big.Int).SetString(o.Val().ExactString(), 10)
			return TT{intLit(v), o.Type()}, nil
		case constant.Bool:
			if constant.BoolVal(o.Val()) {
				return TT{tTrue, o.Type()}, nil
			}
			return TT{tFalse, o.Type()}, nil
		case constant.String:
			return TT{e.strConst(constant.StringVal(o.Val())), o.Type()}, nil
		}
		return TT{}, fmt.Errorf("unsupported constant %s", o.Name())
	case *types.Var:
		sp := e.w.Pkgs[o.Pkg().Path()]
		if sp == nil {
			return TT{}, fmt.Errorf("package of %s not loaded", o.Name())
		}
		g, ok := sp.Members[o.Name()].(interface{ String() string })
		_ = g
		gl := sp.Var(o.Name())
		if !ok || gl == nil {
			return TT{}, fmt.Errorf("no global %s", o.Name())
		}
		s := e.sortOf(o.Type())
		if !e.w.MutGlob[gl] {
			return TT{e.globalConst(gl.String(), s, o.Type()), o.Type()}, nil
		}
		key := e.regHeap("G:"+shortFuncName(gl.String()), s)
		return TT{e.heapGet(c.cur, key), o.Type()}, nil
	}
	return TT{}, fmt.Errorf("identifier %s is not a value", obj.Name())
}

func (c *CEnv) selectField(xv TT, f string) (TT, error) {
	e := c.e
	if xv.T == nil {
		return TT{}, fmt.Errorf("field %s of untyped term", f)
	}
	t := xv.T
	if p, ok := t.Underlying().(*types.Pointer); ok {
		st, ok := p.Elem().Underlying().(*types.Struct)
		if !ok {
			return TT{}, fmt.Errorf("field %s of pointer to non-struct %s", f, t)
		}
		if e.isElemPtrType(p.Elem()) {
			a := e.elemAddr(xv.Term, p.Elem())
			sv := TT{e.load(c.cur, a), p.Elem()}
			return c.selectField(sv, f)
		}
		for i := 0; i < st.NumFields(); i++ {
			if st.Field(i).Name() == f {
				key, fs, ft := e.fieldKey(p.Elem(), i)
				v := sel(e.heapGet(c.cur, key), xv.Term, fs)
				c.heapValueFacts(v, ft, xv.Term)
				return TT{v, ft}, nil
			}
		}
		// promoted through embedded struct values
		for i := 0; i < st.NumFields(); i++ {
			if st.Field(i).Embedded() {
				key, fs, ft := e.fieldKey(p.Elem(), i)
				inner := TT{sel(e.heapGet(c.cur, key), xv.Term, fs), ft}
				if r, err := c.selectField(inner, f); err == nil {
					return r, nil
				}
			}
		}
		return TT{}, fmt.Errorf("no field %s in %s", f, p.Elem())
	}
	if st, ok := t.Underlying().(*types.Struct); ok {
		s := e.sortOf(t)
		for i := 0; i < st.NumFields(); i++ {
			if st.Field(i).Name() == f {
				return TT{Term{fmt.Sprintf("(%s_f%d %s)", s, i, xv.S), e.sortOf(st.Field(i).Type())}, st.Field(i).Type()}, nil
			}
		}
		for i := 0; i < st.NumFields(); i++ {
			if st.Field(i).Embedded() {
				inner := TT{Term{fmt.Sprintf("(%s_f%d %s)", s, i, xv.S), e.sortOf(st.Field(i).Type())}, st.Field(i).Type()}
				if r, err := c.selectField(inner, f); err == nil {
					return r, nil
				}
			}
		}
		return TT{}, fmt.Errorf("no field %s in %s", f, t)
	}
	return TT{}, fmt.Errorf("field %s of %s", f, t)
}

func (c *CEnv) indexValue(xv, i TT) (TT, error) {
	e := c.e
	switch xv.Sort {
	case SSlice:
		var el types.Type
		if xv.T != nil {
			if s, ok := xv.T.Underlying().(*types.Slice); ok {
				el = s.Elem()
			}
		}
		if el == nil {
			return TT{}, fmt.Errorf("index of slice with unknown element type")
		}
		es := e.sortOf(el)
		mem := e.heapGet(c.cur, e.memKey(es))
		return TT{T(es, "(select (select %s (s_arr %s)) (+ (s_off %s) %s))", mem.S, xv.S, xv.S, i.S), el}, nil
	case SStr:
		return TT{T(SInt, "(str_at %s %s)", xv.S, i.S), nil}, nil
	case SInt:
		if xv.T != nil {
			if mt, ok := xv.T.Underlying().(*types.Map); ok {
				_, vk, _, ks, vs := e.mapKeys(mt)
				return TT{sel(sel(e.heapGet(c.cur, vk), xv.Term, arraySort(ks, vs)), i.Term, vs), mt.Elem()}, nil
			}
		}
	}
	if strings.HasPrefix(xv.Sort, "(Array Int ") {
		es := strings.TrimSuffix(strings.TrimPrefix(xv.Sort, "(Array Int "), ")")
		var el types.Type
		if xv.T != nil {
			if a, ok := xv.T.Underlying().(*types.Array); ok {
				el = a.Elem()
			}
		}
		return TT{sel(xv.Term, i.Term, es), el}, nil
	}
	return TT{}, fmt.Errorf("cannot index a %s", xv.Sort)
}

func (c *CEnv) evalBin(n *CBin) (TT, error) {
	// short forms first
	a, err := c.eval(n.X)
	if err != nil {
		return TT{}, err
	}
	b, err := c.eval(n.Y)
	if err != nil {
		return TT{}, err
	}
	// nil literal adapts to the other side
	fix := func(x, other TT) TT {
		if x.Sort == sortNil {
			return TT{c.e.zeroOfSort(other.Sort, other.T), other.T}
		}
		return x
	}
	a, b = fix(a, b), fix(b, a)
	boolOp := func(op string) (TT, error) {
		if a.Sort != SBool || b.Sort != SBool {
			return TT{}, fmt.Errorf("%s needs booleans in %s", op, n)
		}
		switch op {
		case "&&":
			return TT{and(a.Term, b.Term), nil}, nil
		case "||":
			return TT{or(a.Term, b.Term), nil}, nil
		case "==>":
			return TT{implies(a.Term, b.Term), nil}, nil
		}
		return TT{eq(a.Term, b.Term), nil}, nil
	}
	switch n.Op {
	case "&&", "||", "==>", "<==>":
		return boolOp(n.Op)
	case "==", "!=":
		if (a.Sort == "Real" && b.Sort == SInt) || (a.Sort == SInt && b.Sort == "Real") {
			ra, rb := a.S, b.S
			if a.Sort == SInt {
				ra = "(to_real " + a.S + ")"
			}
			if b.Sort == SInt {
				rb = "(to_real " + b.S + ")"
			}
			r := T(SBool, "(= %s %s)", ra, rb)
			if n.Op == "!=" {
				r = not(r)
			}
			return TT{r, nil}, nil
		}
		if a.Sort != b.Sort {
			return TT{}, fmt.Errorf("comparing %s with %s in %s", a.Sort, b.Sort, n)
		}
		r := eq(a.Term, b.Term)
		if n.Op == "!=" {
			r = not(r)
		}
		return TT{r, nil}, nil
	}
	if a.Sort == "Real" || b.Sort == "Real" {
		ra, rb := a.S, b.S
		if a.Sort == SInt {
			ra = "(to_real " + a.S + ")"
		}
		if b.Sort == SInt {
			rb = "(to_real " + b.S + ")"
		}
		switch n.Op {
		case "<", "<=", ">", ">=":
			return TT{T(SBool, "(%s %s %s)", n.Op, ra, rb), nil}, nil
		case "+", "-", "*":
			return TT{T("Real", "(%s %s %s)", n.Op, ra, rb), nil}, nil
		}
	}
	if a.Sort == SF64 && b.Sort == SF64 {
		ops := map[string]string{"<": "fp.lt", "<=": "fp.leq", ">": "fp.gt", ">=": "fp.geq"}
		if o, ok := ops[n.Op]; ok {
			return TT{T(SBool, "(%s %s %s)", o, a.S, b.S), nil}, nil
		}
	}
	if a.Sort == SStr && b.Sort == SStr && n.Op == "+" {
		r := T(SStr, "(str_cat %s %s)", a.S, b.S)
		return TT{r, types.Typ[types.String]}, nil
	}
	if a.Sort != SInt || b.Sort != SInt {
		return TT{}, fmt.Errorf("arithmetic on %s and %s in %s", a.Sort, b.Sort, n)
	}
	switch n.Op {
	case "<", "<=", ">", ">=":
		return TT{T(SBool, "(%s %s %s)", n.Op, a.S, b.S), nil}, nil
	case "+", "-", "*":
		return TT{T(SInt, "(%s %s %s)", n.Op, a.S, b.S), nil}, nil
	case "/":
		return TT{T(SInt, "(div %s %s)", a.S, b.S), nil}, nil // floor division for positive divisors (SMT-LIB div)
	case "%":
		return TT{T(SInt, "(mod %s %s)", a.S, b.S), nil}, nil
	case "&", "|", "^":
		if n.Op == "&" {
			// masks of the form 2^k-1 are arithmetic (same rule as the encoding of Go's &)
			if m, ok := new(big.Int).SetString(b.S, 10); ok && m.Sign() >= 0 {
				m1 := new(big.Int).Add(m, big.NewInt(1))
				if new(big.Int).And(m1, m).Sign() == 0 {
					return TT{T(SInt, "(mod %s %s)", a.S, m1.String()), nil}, nil
				}
			}
		}
		fn := map[string]string{"&": "bitand", "|": "bitor", "^": "bitxor"}[n.Op]
		// ground instance of commutativity (a true fact about the operation; keeps the query quantifier-free)
		c.e.assume(tTrue, T(SBool, "(= (%s %s %s) (%s %s %s))", fn, a.S, b.S, fn, b.S, a.S))
		return TT{T(SInt, "(%s %s %s)", fn, a.S, b.S), nil}, nil
	}
	return TT{}, fmt.Errorf("unsupported operator %s", n.Op)
}

func (c *CEnv) evalCall(n *CCall) (TT, error) {
	e := c.e
	argN := func(k int) error {
		if len(n.Args) != k {
			return fmt.Errorf("%s expects %d arguments", n.Fn, k)
		}
		return nil
	}
	switch n.Fn {
	case "old":
		if err := argN(1); err != nil {
			return TT{}, err
		}
		return c.sub(c.old).eval(n.Args[0])
	case "iter":
		if err := argN(1); err != nil {
			return TT{}, err
		}
		if c.iter == nil {
			return TT{}, fmt.Errorf("iter() is only meaningful in step clauses")
		}
		return c.sub(c.iter).eval(n.Args[0])
	case "pre":
		if err := argN(1); err != nil {
			return TT{}, err
		}
		if c.pre == nil {
			return TT{}, fmt.Errorf("pre() is only meaningful in loop invariants")
		}
		return c.sub(c.pre).eval(n.Args[0])
	case "len", "cap":
		if err := argN(1); err != nil {
			return TT{}, err
		}
		x, err := c.eval(n.Args[0])
		if err != nil {
			return TT{}, err
		}
		switch x.Sort {
		case SSlice:
			if n.Fn == "len" {
				return TT{T(SInt, "(s_len %s)", x.S), nil}, nil
			}
			return TT{T(SInt, "(s_cap %s)", x.S), nil}, nil
		case SStr:
			return TT{T(SInt, "(str_len %s)", x.S), nil}, nil
		case SInt:
			if x.T != nil {
				if mt, ok := x.T.Underlying().(*types.Map); ok {
					_, _, lk, _, _ := e.mapKeys(mt)
					return TT{T(SInt, "(ite (= %s 0) 0 (select %s %s))", x.S, e.heapGet(c.cur, lk).S, x.S), nil}, nil
				}
			}
		}
		return TT{}, fmt.Errorf("len of %s", x.Sort)
	case "is":
		x, err := c.eval(n.Args[0])
		if err != nil {
			return TT{}, err
		}
		t, err := c.resolveType(n.Args[1].(*CType).T)
		if err != nil {
			return TT{}, err
		}
		if x.Sort != SIface {
			return TT{}, fmt.Errorf("is() on non-interface")
		}
		if _, isIface := t.Underlying().(*types.Interface); isIface {
			return TT{e.implements(x.Term, t), nil}, nil
		}
		isT := eq(T(SInt, "(tag %s)", x.S), e.typeID(t))
		// ground instance of: a value of dynamic type T is the box of its payload
		tagT := T(SInt, "(tag %s)", x.S)
		c.assumeFact(implies(isT, eq(e.box(t, e.unbox(t, x.Term)), x.Term)), tagT)
		// payloads are values of their Go type (machine integers are in range, boxed pointers are allocated and non-nil)
		for _, f := range e.typeFacts(e.unbox(t, x.Term), t, e.heapGet(c.cur, e.allocKey())) {
			c.assumeFact(implies(isT, f), tagT)
		}
		if _, isPtr := t.Underlying().(*types.Pointer); isPtr {
			c.assumeFact(implies(isT, T(SBool, "(not (= %s 0))", e.unbox(t, x.Term).S)), tagT)
		}
		return TT{isT, nil}, nil
	case "addr":
		// addr(p.f): the address of field f of the object p points to (stable: a function of p)
		selx, ok := n.Args[0].(*CSel)
		if !ok {
			return TT{}, fmt.Errorf("addr() needs a field selection")
		}
		xv, err := c.eval(selx.X)
		if err != nil {
			return TT{}, err
		}
		pt, ok := xv.T.Underlying().(*types.Pointer)
		if !ok {
			return TT{}, fmt.Errorf("addr(): %s is not a pointer", selx.X)
		}
		stt, ok := pt.Elem().Underlying().(*types.Struct)
		if !ok {
			return TT{}, fmt.Errorf("addr(): not a struct")
		}
		for i := 0; i < stt.NumFields(); i++ {
			if stt.Field(i).Name() == selx.F {
				key, _, ft := e.fieldKey(pt.Elem(), i)
				return TT{e.fieldPtr(key, xv.Term), types.NewPointer(ft)}, nil
			}
		}
		return TT{}, fmt.Errorf("addr(): no field %s", selx.F)
	case "mapsframe":
		// mapsframe(m1, m2, ...): every map object other than the listed ones is unchanged (relative to the loop entry
		// inside a loop invariant, to the function entry elsewhere)
		base := c.pre
		if base == nil {
			base = c.old
		}
		exclBy := map[string][]string{} // map type id -> exclusions
		for _, a := range n.Args {
			v, err := c.eval(a)
			if err != nil {
				return TT{}, err
			}
			mt, ok := v.T.Underlying().(*types.Map)
			if v.T == nil || !ok {
				return TT{}, fmt.Errorf("mapsframe() argument is not a map")
			}
			id := e.sortOf(mt.Key()) + ":" + e.sortOf(mt.Elem())
			exclBy[id] = append(exclBy[id], fmt.Sprintf("(not (= mf_r %s))", v.S))
		}
		var parts []Term
		var keys []string
		for k := range e.heapSort {
			if strings.HasPrefix(k, "MD:") || strings.HasPrefix(k, "MV:") || strings.HasPrefix(k, "ML:") {
				keys = append(keys, k)
			}
		}
		sort.Strings(keys)
		for _, k := range keys {
			hc, hb := e.heapGet(c.cur, k), e.heapGet(base, k)
			if hc.S == hb.S {
				continue
			}
			cond := "true"
			excl := exclBy[k[3:]]
			if len(excl) > 0 {
				cond = "(and " + strings.Join(excl, " ") + ")"
			}
			parts = append(parts, T(SBool, "(forall ((mf_r Int)) (! (=> %s (= (select %s mf_r) (select %s mf_r))) :pattern ((select %s mf_r))))", cond, hc.S, hb.S, hc.S))
		}
		return TT{and(parts...), nil}, nil
	case "iterno":
		// iterno(): number of code points already produced by the string range of this loop
		if c.iterKey == "" {
			return TT{}, fmt.Errorf("iterno() is only meaningful in invariants of a range over a string")
		}
		return TT{e.heapGet(c.cur, c.iterKey), nil}, nil
	case "visited":
		// visited(k): key k has already been produced by the map range of this loop
		if err := argN(1); err != nil {
			return TT{}, err
		}
		if c.rangeKey == "" {
			return TT{}, fmt.Errorf("visited() is only meaningful in invariants of a range over a map")
		}
		kv, err := c.eval(n.Args[0])
		if err != nil {
			return TT{}, err
		}
		return TT{sel(e.heapGet(c.cur, c.rangeKey), kv.Term, SBool), nil}, nil
	case "has":
		// has(m, k): key k is present in map m
		if err := argN(2); err != nil {
			return TT{}, err
		}
		mv, err := c.eval(n.Args[0])
		if err != nil {
			return TT{}, err
		}
		kv, err := c.eval(n.Args[1])
		if err != nil {
			return TT{}, err
		}
		mt, ok := mv.T.Underlying().(*types.Map)
		if mv.T == nil || !ok {
			return TT{}, fmt.Errorf("has() of non-map")
		}
		dk, _, _, _, _ := e.mapKeys(mt)
		return TT{T(SBool, "(and (not (= %s 0)) (select (select %s %s) %s))", mv.S, e.heapGet(c.cur, dk).S, mv.S, kv.S), nil}, nil
	case "eaddr":
		// eaddr(s, i): the address &s[i] of an element of slice s (element pointer)
		if err := argN(2); err != nil {
			return TT{}, err
		}
		sv, err := c.eval(n.Args[0])
		if err != nil {
			return TT{}, err
		}
		iv, err := c.eval(n.Args[1])
		if err != nil {
			return TT{}, err
		}
		sl, ok := sv.T.Underlying().(*types.Slice)
		if sv.T == nil || !ok {
			return TT{}, fmt.Errorf("eaddr() of non-slice")
		}
		e.declare("(declare-fun eptr (Int Int) Int)")
		e.declare("(declare-fun eptr_arr (Int) Int)")
		e.declare("(declare-fun eptr_idx (Int) Int)")
		p := T(SInt, "(eptr (s_arr %s) (+ (s_off %s) %s))", sv.S, sv.S, iv.S)
		e.assume(tTrue, T(SBool, "(and (> %s 0) (= (eptr_arr %s) (s_arr %s)) (= (eptr_idx %s) (+ (s_off %s) %s)))", p.S, p.S, sv.S, p.S, sv.S, iv.S))
		return TT{p, types.NewPointer(sl.Elem())}, nil
	case "arr":
		// the backing array of a slice as a value
		x, err := c.eval(n.Args[0])
		if err != nil {
			return TT{}, err
		}
		sl, ok := x.T.Underlying().(*types.Slice)
		if x.T == nil || !ok {
			return TT{}, fmt.Errorf("arr() of non-slice")
		}
		es := e.sortOf(sl.Elem())
		return TT{sel(e.heapGet(c.cur, e.memKey(es)), T(SInt, "(s_arr %s)", x.S), arraySort(SInt, es)), nil}, nil
	case "box":
		// box(x) boxes a typed value into an interface
		x, err := c.eval(n.Args[0])
		if err != nil {
			return TT{}, err
		}
		if x.T == nil {
			return TT{}, fmt.Errorf("box of untyped term")
		}
		bx := e.box(x.T, x.Term)
		e.assume(tTrue, eq(T(SInt, "(tag %s)", bx.S), e.typeID(x.T)))
		e.assume(tTrue, same(e.unbox(x.T, bx), x.Term))
		e.assume(tTrue, not(eq(bx, Term{"nil_iface", SIface})))
		return TT{bx, nil}, nil
	case "fresh":
		x, err := c.eval(n.Args[0])
		if err != nil {
			return TT{}, err
		}
		ref := x.Term
		if x.Sort == SSlice {
			ref = T(SInt, "(s_arr %s)", x.S)
		}
		oa := e.heapGet(c.old, e.allocKey())
		na := e.heapGet(c.cur, e.allocKey())
		return TT{T(SBool, "(and (>= %s %s) (< %s %s))", ref.S, oa.S, ref.S, na.S), nil}, nil
	case "as":
		// as(x, T): an integer-sorted ghost value read as a pointer or map of Go type T
		x, err := c.eval(n.Args[0])
		if err != nil {
			return TT{}, err
		}
		ct, ok := n.Args[1].(*CType)
		if !ok {
			if id, isId := n.Args[1].(*CIdent); isId {
				ct = &CType{id.Name}
			} else if sel, isSel := n.Args[1].(*CSel); isSel {
				ct = &CType{sel.String()}
			} else {
				return TT{}, fmt.Errorf("as(x, T): T must be a type name")
			}
		}
		t, err := c.resolveType(ct.T)
		if err != nil {
			return TT{}, err
		}
		if x.Sort != SInt || e.sortOf(t) != SInt {
			return TT{}, fmt.Errorf("as(): only integer-sorted values (pointers, maps, integers) can be retyped")
		}
		return TT{x.Term, t}, nil
	case "deref":
		// deref(p): the value of the cell a pointer to a non-struct value points to
		x, err := c.eval(n.Args[0])
		if err != nil {
			return TT{}, err
		}
		pt, ok := x.T.Underlying().(*types.Pointer)
		if x.T == nil || !ok {
			return TT{}, fmt.Errorf("deref() of non-pointer %s", n.Args[0])
		}
		el := pt.Elem()
		if _, isStruct := el.Underlying().(*types.Struct); isStruct || e.isElemPtrType(el) {
			return TT{}, fmt.Errorf("deref() needs a pointer to a scalar, interface, string, slice or map cell")
		}
		so := e.sortOf(el)
		return TT{sel(e.heapGet(c.cur, e.cellKey(so)), x.Term, so), el}, nil
	case "arg":
		// arg(k): the k-th actual argument of the call a callsite clause is attached to (receiver first for invokes)
		if lit, ok := n.Args[0].(*CLit); ok {
			if v, ok := c.vars["$arg"+lit.V]; ok {
				return v, nil
			}
			return TT{}, fmt.Errorf("arg(%s): the call has no such argument (or arg() used outside a callsite clause)", lit.V)
		}
		return TT{}, fmt.Errorf("arg(): argument position must be a literal")
	case "allocatedAfter":
		// the object (or the backing array of the slice) was allocated by the current activation
		x, err := c.eval(n.Args[0])
		if err != nil {
			return TT{}, err
		}
		ref := x.Term
		if x.Sort == SSlice {
			ref = T(SInt, "(s_arr %s)", x.S)
		}
		a0 := e.heapGet(c.old, e.allocKey())
		return TT{T(SBool, "(>= %s %s)", ref.S, a0.S), nil}, nil
	case "allocated":
		x, err := c.eval(n.Args[0])
		if err != nil {
			return TT{}, err
		}
		na := e.heapGet(c.cur, e.allocKey())
		return TT{T(SBool, "(and (> %s 0) (< %s %s))", x.S, x.S, na.S), nil}, nil
	case "ite":
		if err := argN(3); err != nil {
			return TT{}, err
		}
		cnd, err := c.evalBool(n.Args[0])
		if err != nil {
			return TT{}, err
		}
		a, err := c.eval(n.Args[1])
		if err != nil {
			return TT{}, err
		}
		b, err := c.eval(n.Args[2])
		if err != nil {
			return TT{}, err
		}
		if a.Sort == sortNil {
			a = TT{e.zeroOfSort(b.Sort, b.T), b.T}
		}
		if b.Sort == sortNil {
			b = TT{e.zeroOfSort(a.Sort, a.T), a.T}
		}
		if a.Sort != b.Sort {
			return TT{}, fmt.Errorf("ite branches differ: %s vs %s", a.Sort, b.Sort)
		}
		return TT{ite(cnd, a.Term, b.Term), a.T}, nil
	case "int", "int64", "Int", "uint", "uint32", "int32", "uint64", "uint8", "byte":
		x, err := c.eval(n.Args[0])
		if err != nil {
			return TT{}, err
		}
		if x.Sort == SBool {
			return TT{ite(x.Term, Term{"1", SInt}, Term{"0", SInt}), nil}, nil
		}
		switch n.Fn {
		case "uint32":
			return TT{T(SInt, "(mod %s 4294967296)", x.S), types.Typ[types.Uint32]}, nil
		case "uint8", "byte":
			return TT{T(SInt, "(mod %s 256)", x.S), types.Typ[types.Uint8]}, nil
		case "uint", "uint64":
			return TT{T(SInt, "(mod %s 18446744073709551616)", x.S), types.Typ[types.Uint64]}, nil
		}
		return TT{x.Term, nil}, nil
	case "real":
		// exact real value of a finite float or of an integer
		x, err := c.eval(n.Args[0])
		if err != nil {
			return TT{}, err
		}
		switch x.Sort {
		case SF64:
			return TT{T("Real", "(fp.to_real %s)", x.S), nil}, nil
		case SInt:
			return TT{T("Real", "(to_real %s)", x.S), nil}, nil
		}
		return TT{}, fmt.Errorf("real() of %s", x.Sort)
	case "fconst":
		// fconst(n): the double equal to the integer literal n (which must be exactly representable)
		lit, ok := n.Args[0].(*CLit)
		neg := false
		if u, isU := n.Args[0].(*CUn); isU && u.Op == "-" {
			lit, ok = u.X.(*CLit)
			neg = true
		}
		if !ok {
			return TT{}, fmt.Errorf("fconst() needs an integer literal")
		}
		v, ok2 := new(big.Int).SetString(lit.V, 0)
		if !ok2 {
			return TT{}, fmt.Errorf("fconst(): bad literal")
		}
		if neg {
			v.Neg(v)
		}
		f, acc := new(big.Float).SetInt(v).Float64()
		if acc != big.Exact {
			return TT{}, fmt.Errorf("fconst(%s) is not exactly representable", v)
		}
		return TT{fpLit(f), types.Typ[types.Float64]}, nil
	case "isnan", "isinf", "isfinite":
		x, err := c.eval(n.Args[0])
		if err != nil {
			return TT{}, err
		}
		if x.Sort != SF64 {
			return TT{}, fmt.Errorf("%s() of non-float", n.Fn)
		}
		switch n.Fn {
		case "isnan":
			return TT{T(SBool, "(fp.isNaN %s)", x.S), nil}, nil
		case "isinf":
			return TT{T(SBool, "(fp.isInfinite %s)", x.S), nil}, nil
		}
		return TT{T(SBool, "(and (not (fp.isNaN %s)) (not (fp.isInfinite %s)))", x.S, x.S), nil}, nil
	case "samef":
		// samef(a, b): the same double, bit for bit up to NaN payload (== on floats is IEEE comparison: -0.0 == 0.0)
		a, err := c.eval(n.Args[0])
		if err != nil {
			return TT{}, err
		}
		b, err := c.eval(n.Args[1])
		if err != nil {
			return TT{}, err
		}
		if a.Sort != SF64 || b.Sort != SF64 {
			return TT{}, fmt.Errorf("samef() needs two floats")
		}
		return TT{same(a.Term, b.Term), nil}, nil
	case "floorf", "absf", "isnegf":
		// IEEE operations on doubles: round towards minus infinity to an integral value, absolute value, sign bit
		x, err := c.eval(n.Args[0])
		if err != nil {
			return TT{}, err
		}
		if x.Sort != SF64 {
			return TT{}, fmt.Errorf("%s() needs a float", n.Fn)
		}
		switch n.Fn {
		case "floorf":
			return TT{T(SF64, "(fp.roundToIntegral RTN %s)", x.S), types.Typ[types.Float64]}, nil
		case "absf":
			return TT{T(SF64, "(fp.abs %s)", x.S), types.Typ[types.Float64]}, nil
		}
		return TT{T(SBool, "(fp.isNegative %s)", x.S), nil}, nil
	case "truncf":
		// truncation of a finite float towards zero, as an unbounded integer
		x, err := c.eval(n.Args[0])
		if err != nil {
			return TT{}, err
		}
		return TT{T(SInt, "(ite (fp.isNegative %s) (- (to_int (fp.to_real (fp.abs %s)))) (to_int (fp.to_real %s)))", x.S, x.S, x.S), nil}, nil
	case "tag":
		x, err := c.eval(n.Args[0])
		if err != nil {
			return TT{}, err
		}
		return TT{T(SInt, "(tag %s)", x.S), nil}, nil
	case "ref":
		// the reference underlying a pointer / the array of a slice
		x, err := c.eval(n.Args[0])
		if err != nil {
			return TT{}, err
		}
		if x.Sort == SSlice {
			return TT{T(SInt, "(s_arr %s)", x.S), nil}, nil
		}
		return TT{x.Term, nil}, nil
	case "off":
		x, err := c.eval(n.Args[0])
		if err != nil {
			return TT{}, err
		}
		return TT{T(SInt, "(s_off %s)", x.S), nil}, nil
	}
	// contract-level spec macro
	if m := e.w.CS.Specs[n.Fn]; m != nil {
		if len(m.Params) != len(n.Args) {
			return TT{}, fmt.Errorf("spec %s expects %d arguments", n.Fn, len(m.Params))
		}
		if c.depth > 40 {
			return TT{}, fmt.Errorf("spec macro recursion too deep at %s", n.Fn)
		}
		sub := &CEnv{e: e, vars: map[string]TT{}, cur: c.cur, old: c.old, pkg: m.Pkg, guard: c.guard, depth: c.depth + 1}
		for i, p := range m.Params {
			a, err := c.eval(n.Args[i])
			if err != nil {
				return TT{}, err
			}
			var pt types.Type
			if p.Type != "int" && p.Type != "bool" {
				pt, err = e.w.lookupType(p.Type, m.Pkg)
				if err != nil {
					return TT{}, err
				}
				if a.Sort == sortNil {
					a = TT{e.zero(pt), pt}
				}
				if e.sortOf(pt) != a.Sort {
					return TT{}, fmt.Errorf("spec %s argument %s: sort %s, want %s", n.Fn, p.Name, a.Sort, e.sortOf(pt))
				}
			} else {
				pt = a.T
			}
			sub.vars[p.Name] = TT{a.Term, pt}
		}
		r, err := sub.eval(m.Body)
		if err != nil {
			return TT{}, fmt.Errorf("in spec %s: %v", n.Fn, err)
		}
		if m.Ret != "int" && m.Ret != "bool" {
			if rt, err := e.w.lookupType(m.Ret, m.Pkg); err == nil {
				r.T = rt
			}
		}
		return r, nil
	}
	// SMT spec function
	if sig, ok := e.w.SpecSigs[n.Fn]; ok {
		if len(sig.Args) != len(n.Args) {
			return TT{}, fmt.Errorf("spec function %s expects %d arguments", n.Fn, len(sig.Args))
		}
		var parts []string
		for i, a := range n.Args {
			v, err := c.eval(a)
			if err != nil {
				return TT{}, err
			}
			if v.Sort != sig.Args[i] {
				return TT{}, fmt.Errorf("spec function %s argument %d: sort %s, want %s", n.Fn, i, v.Sort, sig.Args[i])
			}
			parts = append(parts, v.S)
		}
		if len(parts) == 0 {
			return TT{Term{n.Fn, sig.Ret}, nil}, nil
		}
		return TT{Term{"(" + n.Fn + " " + strings.Join(parts, " ") + ")", sig.Ret}, nil}, nil
	}
	// a real (loop-free) Go function of the repository used in specification position: its SSA is encoded in place
	if fn := c.goFunc(n.Fn); fn != nil {
		if len(fn.Params) != len(n.Args) {
			return TT{}, fmt.Errorf("%s expects %d arguments", n.Fn, len(fn.Params))
		}
		var args []Term
		for i, a := range n.Args {
			v, err := c.eval(a)
			if err != nil {
				return TT{}, err
			}
			if v.Sort != e.sortOf(fn.Params[i].Type()) {
				return TT{}, fmt.Errorf("%s argument %d: sort %s", n.Fn, i, v.Sort)
			}
			args = append(args, v.Term)
		}
		fr := e.newFrame(fn, nil, "spec:"+fn.Name())
		exits := e.run(fr, args, c.cur.clone(), tTrue)
		var rets []*Exit
		for _, ex := range exits {
			if ex.kind == "return" {
				rets = append(rets, ex)
			}
		}
		if len(rets) == 0 || len(rets[0].results) != 1 {
			return TT{}, fmt.Errorf("%s cannot be used in a specification (needs exactly one result)", n.Fn)
		}
		t := rets[len(rets)-1].results[0]
		for k := len(rets) - 2; k >= 0; k-- {
			t = ite(rets[k].cond, rets[k].results[0], t)
		}
		return TT{e.def("spec_"+fn.Name(), t), fn.Signature.Results().At(0).Type()}, nil
	}
	return TT{}, fmt.Errorf("unknown function %s", n.Fn)
}

func (c *CEnv) goFunc(name string) *ssa.Function {
	w := c.e.w
	cands := []string{name, c.pkg + "." + name}
	if i := strings.Index(name, "."); i >= 0 && !strings.Contains(name, "/") {
		for path := range w.TPkgs {
			if strings.HasSuffix(path, "/"+name[:i]) || path == name[:i] {
				cands = append(cands, path+"."+name[i+1:])
			}
		}
	}
	for _, k := range cands {
		if fn := w.Funcs[k]; fn != nil && fn.Blocks != nil {
			if _, back := blockOrder(fn); len(back) == 0 {
				return fn
			}
		}
	}
	return nil
}

// ---------------------------------------------------------------- modifies targets

// havocTarget havocs one modifies target in st; addresses are evaluated in pre.
func (c *CEnv) havocTarget(m CExpr, pre, st *State) error {
	e := c.e
	pc := c.sub(pre)
	switch n := m.(type) {
	case *CIndex:
		if id, ok := n.X.(*CIdent); ok && e.w.CS.Ghosts[id.Name] != nil {
			i, err := pc.eval(n.I)
			if err != nil {
				return err
			}
			key, srt := e.ghostKey(id.Name)
			e.heapSet(st, key, store(e.heapGet(st, key), i.Term, e.fresh("hv_"+id.Name, srt)))
			return nil
		}
	case *CIdent:
		if g := e.w.CS.Ghosts[n.Name]; g != nil {
			key, _ := e.ghostKey(n.Name)
			st.heaps[key] = e.fresh("hv_"+n.Name, e.heapSort[key])
			return nil
		}
		// global variable
		if obj := e.w.lookupObject(n.Name, c.pkg); obj != nil {
			if v, ok := obj.(*types.Var); ok {
				gl := e.w.Pkgs[v.Pkg().Path()].Var(v.Name())
				key := e.regHeap("G:"+shortFuncName(gl.String()), e.sortOf(v.Type()))
				st.heaps[key] = e.freshTyped("hv_"+n.Name, v.Type(), tTrue, st)
				return nil
			}
		}
	case *CSel:
		// Type.field : the whole field heap
		if id, ok := n.X.(*CIdent); ok {
			if _, isVar := c.vars[id.Name]; !isVar {
				if t, err := c.resolveType(id.Name); err == nil {
					if stt, ok := t.Underlying().(*types.Struct); ok {
						for i := 0; i < stt.NumFields(); i++ {
							if stt.Field(i).Name() == n.F {
								key, _, _ := e.fieldKey(t, i)
								st.heaps[key] = e.fresh("hv_"+n.F, e.heapSort[key])
								return nil
							}
						}
					}
				}
			}
		}
		xv, err := pc.eval(n.X)
		if err != nil {
			return err
		}
		p, ok := xv.T.Underlying().(*types.Pointer)
		if !ok {
			return fmt.Errorf("modifies target %s: not a pointer", n.X)
		}
		stt, ok := p.Elem().Underlying().(*types.Struct)
		if !ok {
			return fmt.Errorf("modifies target %s: not a struct pointer", n.X)
		}
		for i := 0; i < stt.NumFields(); i++ {
			if stt.Field(i).Name() == n.F {
				key, _, ft := e.fieldKey(p.Elem(), i)
				nv := e.freshTyped("hv_"+n.F, ft, tTrue, st)
				e.heapSet(st, key, store(e.heapGet(st, key), xv.Term, nv))
				return nil
			}
		}
		return fmt.Errorf("no field %s", n.F)
	case *CCall:
		if n.Fn == "cells" && len(n.Args) == 1 {
			// cells(T): every pointed-to cell holding a T (locals whose address is taken, *T out-parameters)
			if id, ok := n.Args[0].(*CIdent); ok {
				if t, err := c.resolveType(id.Name); err == nil {
					key := e.cellKey(e.sortOf(t))
					st.heaps[key] = e.fresh("hv_cells", e.heapSort[key])
					return nil
				}
			}
			return fmt.Errorf("cells() needs a type name")
		}
		if n.Fn == "mapof" && len(n.Args) == 1 {
			xv, err := pc.eval(n.Args[0])
			if err != nil {
				return err
			}
			mt, ok := xv.T.Underlying().(*types.Map)
			if !ok {
				return fmt.Errorf("mapof() of non-map")
			}
			dk, vk, lk, ks, vs := e.mapKeys(mt)
			e.heapSet(st, dk, store(e.heapGet(st, dk), xv.Term, e.fresh("hv_dom", arraySort(ks, SBool))))
			e.heapSet(st, vk, store(e.heapGet(st, vk), xv.Term, e.fresh("hv_val", arraySort(ks, vs))))
			nl := e.fresh("hv_len", SInt)
			e.assume(tTrue, T(SBool, "(>= %s 0)", nl.S))
			e.heapSet(st, lk, store(e.heapGet(st, lk), xv.Term, nl))
			return nil
		}
		if n.Fn == "mem" && len(n.Args) == 1 {
			xv, err := pc.eval(n.Args[0])
			if err != nil {
				return err
			}
			sl, ok := xv.T.Underlying().(*types.Slice)
			if !ok {
				return fmt.Errorf("mem() of non-slice")
			}
			es := e.sortOf(sl.Elem())
			mk := e.memKey(es)
			e.heapSet(st, mk, store(e.heapGet(st, mk), T(SInt, "(s_arr %s)", xv.S), e.fresh("hv_mem", arraySort(SInt, es))))
			return nil
		}
	}
	return fmt.Errorf("unsupported modifies target %s", m)
}

// modKeys: heap keys a modifies target may touch (for loop havoc).
func (e *Enc) modKeys(m CExpr, c *Contract) []string {
	switch n := m.(type) {
	case *CIndex:
		if id, ok := n.X.(*CIdent); ok && e.w.CS.Ghosts[id.Name] != nil {
			k, _ := e.ghostKey(id.Name)
			return []string{k}
		}
	case *CIdent:
		if e.w.CS.Ghosts[n.Name] != nil {
			k, _ := e.ghostKey(n.Name)
			return []string{k}
		}
		if obj := e.w.lookupObject(n.Name, c.Pkg); obj != nil {
			if v, ok := obj.(*types.Var); ok {
				gl := e.w.Pkgs[v.Pkg().Path()].Var(v.Name())
				return []string{e.regHeap("G:"+shortFuncName(gl.String()), e.sortOf(v.Type()))}
			}
		}
	case *CSel:
		// all heaps with this field name (conservative)
		var out []string
		for k := range e.heapSort {
			if strings.HasPrefix(k, "F:") && strings.HasSuffix(k, "."+n.F) {
				out = append(out, k)
			}
		}
		if len(out) == 0 {
			// not registered yet: register through the callee's parameter types is not possible here; be conservative
			return []string{"*"}
		}
		return out
	case *CCall:
		if n.Fn == "cells" && len(n.Args) == 1 {
			if id, ok := n.Args[0].(*CIdent); ok {
				if t, err := e.w.lookupType(id.Name, c.Pkg); err == nil {
					return []string{e.cellKey(e.sortOf(t))}
				}
			}
		}
		if n.Fn == "mapof" {
			var out []string
			for k := range e.heapSort {
				if strings.HasPrefix(k, "MD:") || strings.HasPrefix(k, "MV:") || strings.HasPrefix(k, "ML:") {
					out = append(out, k)
				}
			}
			return out
		}
		if n.Fn == "mem" {
			var out []string
			for k := range e.heapSort {
				if strings.HasPrefix(k, "M:") {
					out = append(out, k)
				}
			}
			return out
		}
	}
	return []string{"*"}
}

// heapValueFacts: a value read from an allocated object is well formed and refers only to allocated objects
// (heap invariant; guarded by the allocatedness of the object read, so that it says nothing about unallocated cells).
// assumeFact: a typing fact about a contract term.  Inside a quantifier the term mentions bound variables, so the
// fact is asserted universally closed (it is a guarded truth about every value of the term), triggered on pat.
func (c *CEnv) assumeFact(fact Term, pat Term) {
	if len(c.qstack) == 0 {
		c.e.assume(tTrue, fact)
		return
	}
	var bs []string
	used := false
	for _, q := range c.qstack {
		bs = append(bs, fmt.Sprintf("(%s %s)", q.S, q.Sort))
		if strings.Contains(fact.S, q.S) {
			used = true
		}
	}
	if !used {
		c.e.assume(tTrue, fact)
		return
	}
	// no explicit trigger: contract terms expand to define-funs containing ite, which solvers reject in patterns
	_ = pat
	c.e.assume(tTrue, T(SBool, "(forall (%s) %s)", strings.Join(bs, " "), fact.S))
}

func (c *CEnv) heapValueFacts(v Term, t types.Type, ref Term) {
	e := c.e
	switch u := t.Underlying().(type) {
	case *types.Pointer, *types.Slice, *types.Map, *types.Interface:
	case *types.Basic:
		if u.Info()&types.IsInteger == 0 {
			return
		}
	default:
		return
	}
	alloc := e.heapGet(c.cur, e.allocKey())
	guard := T(SBool, "(and (> %s 0) (< %s %s))", ref.S, ref.S, alloc.S)
	for _, f := range e.typeFacts(v, t, alloc) {
		c.assumeFact(implies(guard, f), v)
	}
}
