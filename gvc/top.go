package main

import (
	"fmt"
	"go/types"
	"sort"
	"strings"

	"golang.org/x/tools/go/ssa"
)

const staticPrelude = `(set-logic ALL)
(declare-sort Str 0)
(declare-sort Iface 0)
(declare-datatypes ((Slice 0)) (((mk_slice (s_arr Int) (s_off Int) (s_len Int) (s_cap Int)))))
(define-fun nil_slice () Slice (mk_slice 0 0 0 0))
(define-fun slice_wf ((s Slice) (maxn Int)) Bool (and (>= (s_arr s) 0) (>= (s_off s) 0) (<= 0 (s_len s)) (<= (s_len s) (s_cap s)) (<= (+ (s_off s) (s_cap s)) maxn) (=> (= (s_arr s) 0) (and (= (s_cap s) 0) (= (s_off s) 0)))))
(declare-const nil_iface Iface)
(declare-fun tag (Iface) Int)
(assert (= (tag nil_iface) 0))
(declare-fun str_len (Str) Int)
(declare-fun str_at (Str Int) Int)
(declare-fun str_sub (Str Int Int) Str)
(declare-fun str_cat (Str Str) Str)
(declare-fun str_lt (Str Str) Bool)
(declare-fun str_bytes (Str) (Array Int Int))
(declare-fun str_runes (Str) (Array Int Int))
(declare-fun str_nrunes (Str) Int)
(declare-fun bitand (Int Int) Int)
(declare-fun bitor (Int Int) Int)
(declare-fun bitxor (Int Int) Int)
(declare-fun bitandnot (Int Int) Int)
(define-fun tdiv ((a Int) (b Int)) Int (ite (>= a 0) (ite (> b 0) (div a b) (- (div a (- b)))) (ite (> b 0) (- (div (- a) b)) (div (- a) (- b)))))
(define-fun trem ((a Int) (b Int)) Int (- a (* b (tdiv a b))))
`

func pow2cDef() string {
	var sb strings.Builder
	sb.WriteString("(define-fun pow2c ((n Int)) Int ")
	for i := 0; i < 64; i++ {
		fmt.Fprintf(&sb, "(ite (= n %d) %s ", i, pow2(i).String())
	}
	sb.WriteString(pow2(64).String())
	sb.WriteString(strings.Repeat(")", 64))
	sb.WriteString(")\n(define-fun shrc ((a Int) (n Int)) Int ")
	for i := 0; i < 64; i++ {
		fmt.Fprintf(&sb, "(ite (= n %d) (div a %s) ", i, pow2(i).String())
	}
	sb.WriteString("(ite (< a 0) (- 1) 0)")
	sb.WriteString(strings.Repeat(")", 64))
	sb.WriteString(")\n")
	return sb.String()
}

const fpPrelude = `(define-sort F64 () (_ FloatingPoint 11 53))
(define-fun to_int_rtz ((x F64)) Int (let ((bv ((_ fp.to_sbv 64) RTZ x))) (ite (bvslt bv #x0000000000000000) (- (bv2nat bv) 18446744073709551616) (bv2nat bv))))
`

// EncodeTop encodes the function under its contract and fills e.obls.
func (e *Enc) EncodeTop() {
	fn, c := e.top, e.topCon
	e.allocKey()
	st0 := e.newState("0")
	e.entryState = e.newState("0")
	fr := e.newFrame(fn, nil, "")
	fr.isTop = true
	fr.con = c
	var args []Term
	alloc0 := e.heapGet(st0, "$alloc")
	e.heapGet(e.entryState, "$alloc")
	for i, p := range fn.Params {
		name := p.Name()
		if c != nil && i < len(c.Params) {
			name = c.Params[i]
		}
		s := e.sortOf(p.Type())
		x := e.fresh("p_"+name, s)
		for _, f := range e.typeFacts(x, p.Type(), alloc0) {
			e.assume(tTrue, f)
		}
		args = append(args, x)
		e.paramTerms[name] = TT{x, p.Type()}
		e.inputs = append(e.inputs, x.S)
	}
	if c != nil && len(c.Params) != len(fn.Params) {
		e.problem("contract of %s names %d parameters, function has %d", fn.String(), len(c.Params), len(fn.Params))
	}
	// receivers of pointer methods are non-nil (object invariant, also checked at static call sites)
	if fn.Signature.Recv() != nil && len(args) > 0 {
		if _, isPtr := fn.Signature.Recv().Type().Underlying().(*types.Pointer); isPtr {
			e.assume(tTrue, T(SBool, "(not (= %s 0))", args[0].S))
		}
	}
	pkg := ""
	if c != nil {
		pkg = c.Pkg
	} else if fn.Pkg != nil {
		pkg = fn.Pkg.Pkg.Path()
	}
	env := &CEnv{e: e, vars: map[string]TT{}, cur: st0, old: e.entryState, pkg: pkg, guard: tTrue}
	for n, v := range e.paramTerms {
		env.vars[n] = v
	}
	// activation-local ghosts start at their zero value
	for name, g := range e.w.CS.Ghosts {
		if g.Local {
			k, srt := e.ghostKey(name)
			z := e.zeroOfSort(srt, nil)
			e.assume(tTrue, T(SBool, "(= %s ((as const %s) %s))", e.heapGet(st0, k).S, e.heapSort[k], z.S))
			e.heapGet(e.entryState, k)
		}
	}
	// global invariants (assumed; established by init, see DESIGN 2.3)
	for _, gi := range e.w.CS.GInvs {
		genv := &CEnv{e: e, vars: map[string]TT{}, cur: st0, old: e.entryState, pkg: gi.Pkg, guard: tTrue}
		g, err := genv.evalBool(gi.E)
		if err != nil {
			e.problem("global-invariant %s: %v", gi.Label, err)
			continue
		}
		e.assume(tTrue, g)
	}
	if c != nil {
		for _, rq := range c.Requires {
			g, err := env.evalBool(rq.E)
			if err != nil {
				e.problem("requires %s: %v", rq.Label, err)
				continue
			}
			e.assume(tTrue, g)
		}
	}
	if c != nil {
		e.protected = map[string][]Term{}
		for _, pe := range c.Protects {
			if err := e.addProtected(env, pe); err != nil {
				e.problem("protects %s: %v", pe, err)
			}
		}
	}
	// vacuity guard: the precondition is satisfiable
	cov := e.oblige(e.topName()+":cover:requires", "cover", tTrue, tTrue, "")
	cov.Cover = true

	exits := e.run(fr, args, st0, tTrue)

	var rets, pans []*Exit
	for _, ex := range exits {
		if ex.kind == "return" {
			rets = append(rets, ex)
		} else if ex.kind == "panic" {
			pans = append(pans, ex)
		}
	}
	if c == nil || len(c.Panics) == 0 {
		// explicit panics must be unreachable
		for _, ex := range pans {
			e.panicExit(fr, ex)
		}
	} else {
		// panics clauses: the function panics exactly when one of them holds at entry
		entryEnv := env.sub(e.entryState)
		var specs []Term
		for _, pc := range c.Panics {
			g, err := entryEnv.evalBool(pc.E)
			if err != nil {
				e.problem("panics %s: %v", pc.Label, err)
				continue
			}
			specs = append(specs, g)
		}
		spec := e.def("panicspec", or(specs...))
		var pconds, rconds []Term
		for _, ex := range pans {
			pconds = append(pconds, ex.cond)
		}
		for _, ex := range rets {
			rconds = append(rconds, ex.cond)
		}
		e.oblige(e.topName()+":panics:only", "ensures", or(pconds...), spec, "")
		e.oblige(e.topName()+":panics:must", "ensures", spec, not(or(rconds...)), "")
	}
	if c == nil {
		return
	}
	for _, cs := range c.CallSites {
		if !e.csHit[cs.Callee+" "+cs.Clause.Label] {
			e.problem("callsite %s %s: no call of %s is encoded (clause generates no obligation)", cs.Callee, cs.Clause.Label, cs.Callee)
		}
	}
	// every return block reachable (cover), conjoined goal per ensures clause
	if len(rets) > 0 {
		var conds []Term
		for _, ex := range rets {
			conds = append(conds, ex.cond)
		}
		cv := e.oblige(e.topName()+":cover:returns", "cover", tTrue, or(conds...), "")
		cv.Cover = true
	}
	for _, en := range c.Ensures {
		var goals []Term
		bad := false
		for _, ex := range rets {
			penv := &CEnv{e: e, vars: map[string]TT{}, cur: ex.st, old: e.entryState, pkg: pkg, guard: ex.cond}
			for n, v := range e.paramTerms {
				penv.vars[n] = v
			}
			for i, rn := range c.Results {
				if i < len(ex.results) {
					penv.vars[rn] = TT{ex.results[i], fn.Signature.Results().At(i).Type()}
				}
			}
			g, err := penv.evalBool(en.E)
			if err != nil {
				e.problem("ensures %s: %v", en.Label, err)
				bad = true
				break
			}
			goals = append(goals, implies(ex.cond, g))
		}
		if bad {
			continue
		}
		ob := e.oblige(fmt.Sprintf("%s:ensures:%s", e.topName(), en.Label), "ensures", tTrue, and(goals...), "")
		// vacuity guard: the hypothesis of an implication clause must be reachable at some return (otherwise the
		// clause proves whatever its conclusion says)
		if imp, ok := en.E.(*CBin); ok && imp.Op == "==>" {
			var reachA []Term
			okA := true
			for _, ex := range rets {
				penv := &CEnv{e: e, vars: map[string]TT{}, cur: ex.st, old: e.entryState, pkg: pkg, guard: ex.cond}
				for n, v := range e.paramTerms {
					penv.vars[n] = v
				}
				for i, rn := range c.Results {
					if i < len(ex.results) {
						penv.vars[rn] = TT{ex.results[i], fn.Signature.Results().At(i).Type()}
					}
				}
				a, err := penv.evalBool(imp.X)
				if err != nil {
					okA = false
					break
				}
				reachA = append(reachA, and(ex.cond, a))
			}
			if okA && len(reachA) > 0 {
				cv := e.oblige(fmt.Sprintf("%s:cover:ensures:%s", e.topName(), en.Label), "cover", tTrue, or(reachA...), "")
				cv.Cover = true
			}
		}
		for _, sp := range c.Splits {
			v, err := env.eval(sp.Var)
			if err != nil || v.Sort != SInt {
				e.problem("split %s: not an integer expression", sp.Var)
				continue
			}
			// exhaustive: v < lo, v == lo .. hi, v > hi
			ob.Cases = append(ob.Cases, fmt.Sprintf("(< %s %d)", v.S, sp.Lo))
			for i := sp.Lo; i <= sp.Hi; i++ {
				ob.Cases = append(ob.Cases, fmt.Sprintf("(= %s %d)", v.S, i))
			}
			ob.Cases = append(ob.Cases, fmt.Sprintf("(> %s %d)", v.S, sp.Hi))
			break // one split per function is supported
		}
	}
	if !c.ModAll || c.PureIf != nil {
		e.frameObligations(c, env, rets)
	}
	// vacuity guard for step clauses: the hypothesis of each must be reachable on some edge that ends an iteration
	var sks []string
	for k := range e.stepCover {
		sks = append(sks, k)
	}
	sort.Strings(sks)
	for _, k := range sks {
		cv := e.oblige(k, "cover", tTrue, or(e.stepCover[k]...), "")
		cv.Cover = true
	}
}

// frameObligations: every heap component that differs from the entry state at a return must be covered by modifies.
func (e *Enc) frameObligations(c *Contract, env *CEnv, rets []*Exit) {
	type allow struct {
		refs []Term
		all  bool
	}
	allowed := map[string]*allow{}
	get := func(k string) *allow {
		if allowed[k] == nil {
			allowed[k] = &allow{}
		}
		return allowed[k]
	}
	entryEnv := env.sub(e.entryState)
	pureCond := tTrue
	mods := c.Modifies
	if c.PureIf != nil {
		pc, err := entryEnv.evalBool(c.PureIf)
		if err != nil {
			e.problem("pureif: %v", err)
			return
		}
		pureCond = e.def("pureif", pc)
		if c.ModAll {
			mods = c.PureMods
		}
	} else if c.ModAll {
		return
	}
	for _, m := range mods {
		switch n := m.(type) {
		case *CIndex:
			if id, ok := n.X.(*CIdent); ok && e.w.CS.Ghosts[id.Name] != nil {
				k, _ := e.ghostKey(id.Name)
				if i, err := entryEnv.eval(n.I); err == nil {
					get(k).refs = append(get(k).refs, i.Term)
				}
			}
		case *CIdent:
			if e.w.CS.Ghosts[n.Name] != nil {
				k, _ := e.ghostKey(n.Name)
				get(k).all = true
			} else if obj := e.w.lookupObject(n.Name, c.Pkg); obj != nil {
				if v, ok := obj.(*types.Var); ok {
					gl := e.w.Pkgs[v.Pkg().Path()].Var(v.Name())
					get("G:" + shortFuncName(gl.String())).all = true
				}
			}
		case *CSel:
			done := false
			if id, ok := n.X.(*CIdent); ok {
				if _, isVar := env.vars[id.Name]; !isVar {
					if t, err := env.resolveType(id.Name); err == nil {
						if stt, ok := t.Underlying().(*types.Struct); ok {
							for i := 0; i < stt.NumFields(); i++ {
								if stt.Field(i).Name() == n.F {
									k, _, _ := e.fieldKey(t, i)
									get(k).all = true
									done = true
								}
							}
						}
					}
				}
			}
			if done {
				break
			}
			if xv, err := entryEnv.eval(n.X); err == nil && xv.T != nil {
				if p, ok := xv.T.Underlying().(*types.Pointer); ok {
					if stt, ok := p.Elem().Underlying().(*types.Struct); ok {
						for i := 0; i < stt.NumFields(); i++ {
							if stt.Field(i).Name() == n.F {
								k, _, _ := e.fieldKey(p.Elem(), i)
								get(k).refs = append(get(k).refs, xv.Term)
							}
						}
					}
				}
			}
		case *CCall:
			if n.Fn == "cells" && len(n.Args) == 1 {
				if id, ok := n.Args[0].(*CIdent); ok {
					if t, err := env.resolveType(id.Name); err == nil {
						get(e.cellKey(e.sortOf(t))).all = true
					}
				}
			}
			if n.Fn == "mapof" && len(n.Args) == 1 {
				if xv, err := entryEnv.eval(n.Args[0]); err == nil && xv.T != nil {
					if mt, ok := xv.T.Underlying().(*types.Map); ok {
						dk, vk, lk, _, _ := e.mapKeys(mt)
						for _, k := range []string{dk, vk, lk} {
							get(k).refs = append(get(k).refs, xv.Term)
						}
					}
				}
			}
			if n.Fn == "mem" && len(n.Args) == 1 {
				if xv, err := entryEnv.eval(n.Args[0]); err == nil && xv.T != nil {
					if sl, ok := xv.T.Underlying().(*types.Slice); ok {
						k := e.memKey(e.sortOf(sl.Elem()))
						get(k).refs = append(get(k).refs, T(SInt, "(s_arr %s)", xv.S))
					}
				}
			}
		}
	}
	var keys []string
	for k := range e.heapSort {
		keys = append(keys, k)
	}
	sort.Strings(keys)
	alloc0 := e.heapGet(e.entryState, "$alloc")
	for _, k := range keys {
		if strings.HasPrefix(k, "RS:") || strings.HasPrefix(k, "RN:") {
			continue // iteration ghosts are local to the activation
		}
		if strings.HasPrefix(k, "ghost:") {
			if g := e.w.CS.Ghosts[strings.TrimPrefix(k, "ghost:")]; g != nil && g.Local {
				continue // activation-local ghosts are not part of any frame
			}
		}
		if k == "$alloc" {
			if c.Pure {
				var goals []Term
				for _, ex := range rets {
					goals = append(goals, implies(and(ex.cond, pureCond), eq(e.heapGet(ex.st, k), alloc0)))
				}
				if g := and(goals...); g.S != "true" {
					e.oblige(fmt.Sprintf("%s:frame:pure-noalloc", e.topName()), "frame", tTrue, g, "")
				}
			}
			continue
		}
		a := allowed[k]
		if a != nil && a.all {
			continue
		}
		h0 := e.heapGet(e.entryState, k)
		var goals []Term
		for _, ex := range rets {
			hn := e.heapGet(ex.st, k)
			if hn.S == h0.S {
				continue
			}
			var g Term
			if strings.HasPrefix(k, "G:") {
				g = eq(hn, h0)
			} else {
				conds := []Term{T(SBool, "(> fr_r 0)"), T(SBool, "(< fr_r %s)", alloc0.S)}
				if a != nil {
					for _, r := range a.refs {
						conds = append(conds, T(SBool, "(not (= fr_r %s))", r.S))
					}
				}
				g = T(SBool, "(forall ((fr_r Int)) (=> %s (= (select %s fr_r) (select %s fr_r))))", and(conds...).S, hn.S, h0.S)
			}
			goals = append(goals, implies(and(ex.cond, pureCond), g))
		}
		if g := and(goals...); g.S != "true" {
			e.oblige(fmt.Sprintf("%s:frame:%s", e.topName(), k), "frame", tTrue, g, "")
		}
	}
}

// ---------------------------------------------------------------- script assembly

func (e *Enc) header() string {
	var sb strings.Builder
	sb.WriteString(staticPrelude)
	sb.WriteString(pow2cDef())
	all := strings.Join(e.decls, "\n") + strings.Join(e.lines, "\n")
	if strings.Contains(all, "F64") || strings.Contains(all, "fp.") {
		sb.WriteString(fpPrelude)
	}
	// struct sorts and constants first (box functions may mention struct sorts)
	var sortDecls, otherDecls []string
	for _, d := range e.decls {
		if strings.HasPrefix(d, "(declare-datatypes") || strings.HasPrefix(d, "(declare-sort") {
			sortDecls = append(sortDecls, d)
		} else {
			otherDecls = append(otherDecls, d)
		}
	}
	for _, d := range sortDecls {
		sb.WriteString(d + "\n")
	}
	// type ids
	var tks []string
	for k := range e.typeIDs {
		tks = append(tks, k)
	}
	sort.Strings(tks)
	for _, k := range tks {
		fmt.Fprintf(&sb, "(define-fun id_%s () Int %d) ; %s\n", mangle(k), e.typeIDs[k], k)
	}
	var bks []string
	for k := range e.boxes {
		bks = append(bks, k)
	}
	sort.Strings(bks)
	for _, k := range bks {
		fmt.Fprintf(&sb, "(declare-fun box_%s (%s) Iface)\n(declare-fun unbox_%s (Iface) %s)\n", k, e.boxes[k], k, e.boxes[k])
	}
	for _, d := range otherDecls {
		sb.WriteString(d + "\n")
	}
	// implements facts for every type id mentioned
	var preds []string
	for k := range e.typeOf {
		if strings.HasPrefix(k, "\x00iface:") {
			preds = append(preds, k)
		}
	}
	sort.Strings(preds)
	for _, pk := range preds {
		it := e.typeOf[pk]
		iface := it.Underlying().(*types.Interface)
		p := strings.TrimPrefix(pk, "\x00iface:")
		for _, k := range tks {
			ct := e.typeOf[k]
			if ct == nil {
				continue
			}
			if _, isI := ct.Underlying().(*types.Interface); isI {
				continue
			}
			if types.Implements(ct, iface) {
				fmt.Fprintf(&sb, "(assert (%s id_%s))\n", p, mangle(k))
			} else {
				fmt.Fprintf(&sb, "(assert (not (%s id_%s)))\n", p, mangle(k))
			}
		}
	}
	if e.usesUncomparable {
		sb.WriteString("(declare-fun uncomparable_tag (Int) Bool)\n(assert (not (uncomparable_tag 0)))\n")
		for _, k := range tks {
			ct := e.typeOf[k]
			if ct == nil {
				continue
			}
			if _, isI := ct.Underlying().(*types.Interface); isI {
				continue
			}
			if types.Comparable(ct) {
				fmt.Fprintf(&sb, "(assert (not (uncomparable_tag id_%s)))\n", mangle(k))
			} else {
				fmt.Fprintf(&sb, "(assert (uncomparable_tag id_%s))\n", mangle(k))
			}
		}
	}
	// spec definitions always; spec axioms only when their trigger symbols are used by this function's encoding
	body := strings.Join(e.lines, "\n")
	for _, o := range e.obls {
		body += o.Goal
	}
	used := map[string]bool{}
	for _, tok := range sexpTokens(body) {
		used[tok] = true
	}
	// transitive use through definitions
	changed := true
	for changed {
		changed = false
		for _, it := range e.w.SpecItems {
			if it.IsAssert {
				continue
			}
			toks := sexpTokens(it.Text)
			if len(toks) < 3 || !used[toks[2]] {
				continue
			}
			for _, t := range toks[3:] {
				if _, isSpec := e.w.SpecSigs[t]; isSpec && !used[t] {
					used[t] = true
					changed = true
				}
			}
		}
	}
	for _, it := range e.w.SpecItems {
		if it.IsAssert {
			ok := len(it.Needs) > 0
			for _, n := range it.Needs {
				if !used[n] {
					ok = false
				}
			}
			if !ok {
				continue
			}
			// header() runs concurrently for the obligations of one function that are raced in parallel
			e.axMu.Lock()
			if e.usedAxioms == nil {
				e.usedAxioms = map[string]bool{}
			}
			e.usedAxioms[strings.Join(it.Needs, ",")] = true
			e.axMu.Unlock()
		}
		sb.WriteString(it.Text + "\n")
	}
	return sb.String()
}

func (o *Obligation) query() string {
	if o.Cover {
		return "(assert " + o.Goal + ")"
	}
	return "(assert (not " + o.Goal + "))"
}

// Standalone script for one obligation.
func (e *Enc) script(o *Obligation, withModel bool) string {
	var sb strings.Builder
	if withModel {
		sb.WriteString("(set-option :produce-models true)\n")
	}
	hdr := e.header()
	if o.Cover {
		var kept []string
		for _, l := range strings.Split(hdr, "\n") {
			if strings.HasPrefix(l, "(assert (forall") {
				continue
			}
			kept = append(kept, l)
		}
		hdr = strings.Join(kept, "\n")
	}
	sb.WriteString(hdr)
	for i, l := range e.lines[:o.Prefix] {
		if o.Cover && strings.HasPrefix(l, "(assert") && strings.Contains(l, "(forall ") {
			continue // reachability guards are decided without the quantified frame facts (weaker assumptions)
		}
		if o.Skip[i] {
			continue // staged invariants: not among the assumptions of this obligation
		}
		if i < o.LoopStart && e.memAxiom[i] {
			continue // quantified facts about memory before the enclosing loop's havoc (weaker assumptions, still sound)
		}
		sb.WriteString(l + "\n")
	}
	if o.caseSel >= 0 && o.caseSel < len(o.Cases) {
		sb.WriteString("(assert " + o.Cases[o.caseSel] + ")\n")
	}
	sb.WriteString(o.query() + "\n(check-sat)\n")
	if withModel {
		ins := append(append([]string{}, o.Inputs...), e.extraInputs()...)
		if len(ins) > 0 {
			sb.WriteString("(get-value (" + strings.Join(ins, " ") + "))\n")
		}
	}
	return sb.String()
}

// Incremental script for all obligations of the function.
func (e *Enc) incrementalScript() string {
	var sb strings.Builder
	sb.WriteString(e.header())
	obs := append([]*Obligation(nil), e.obls...)
	sort.SliceStable(obs, func(i, j int) bool { return obs[i].Prefix < obs[j].Prefix })
	li := 0
	for _, o := range obs {
		for li < o.Prefix {
			sb.WriteString(e.lines[li] + "\n")
			li++
		}
		if len(o.Cases) > 0 {
			for k, cs := range o.Cases {
				fmt.Fprintf(&sb, "(push 1)\n(echo \"@@ %s##%d\")\n(assert %s)\n%s\n(check-sat)\n(pop 1)\n", o.Name, k, cs, o.query())
			}
			continue
		}
		fmt.Fprintf(&sb, "(push 1)\n(echo \"@@ %s\")\n%s\n(check-sat)\n(pop 1)\n", o.Name, o.query())
	}
	return sb.String()
}

func funcKeyOf(fn *ssa.Function) string { return fn.String() }

// encodeFunction encodes fn twice: the first pass only discovers which heap components the function touches, so
// that state merges in the second pass materialise every component (no precision is lost at joins after havocs).
func encodeFunction(w *World, fn *ssa.Function, c *Contract) *Enc {
	e1 := NewEnc(w, fn, c)
	e1.EncodeTop()
	e2 := NewEnc(w, fn, c)
	for k, v := range e1.heapSort {
		e2.heapSort[k] = v
	}
	e2.EncodeTop()
	return e2
}

func (e *Enc) addProtected(env *CEnv, pe CExpr) error {
	if call, ok := pe.(*CCall); ok && call.Fn == "mem" && len(call.Args) == 1 {
		xv, err := env.eval(call.Args[0])
		if err != nil {
			return err
		}
		sl, ok := xv.T.Underlying().(*types.Slice)
		if !ok {
			return fmt.Errorf("mem() of non-slice")
		}
		k := e.memKey(e.sortOf(sl.Elem()))
		e.protected[k] = append(e.protected[k], e.def("prot", T(SInt, "(s_arr %s)", xv.S)))
		return nil
	}
	if ix, ok := pe.(*CIndex); ok {
		if id, ok := ix.X.(*CIdent); ok && e.w.CS.Ghosts[id.Name] != nil {
			iv, err := env.eval(ix.I)
			if err != nil {
				return err
			}
			k, _ := e.ghostKey(id.Name)
			e.protected[k] = append(e.protected[k], e.def("prot", iv.Term))
			return nil
		}
	}
	xv, err := env.eval(pe)
	if err != nil {
		return err
	}
	if xv.T == nil {
		return fmt.Errorf("untyped")
	}
	p, ok := xv.T.Underlying().(*types.Pointer)
	if !ok {
		return fmt.Errorf("not a pointer")
	}
	stt, ok := p.Elem().Underlying().(*types.Struct)
	if !ok {
		return fmt.Errorf("not a pointer to struct")
	}
	ref := e.def("prot", xv.Term)
	for i := 0; i < stt.NumFields(); i++ {
		k, _, _ := e.fieldKey(p.Elem(), i)
		e.protected[k] = append(e.protected[k], ref)
	}
	e.noteAssume("ownership: calls out of " + e.topName() + " do not write the fields of " + pe.String())
	return nil
}
