package main

// Replay of solver counterexamples on the real code: a Go test is generated that calls the real function with the
// model's inputs (go test -overlay, nothing is written into /repo), its outputs are read back, and the violated
// clause is re-evaluated by the solver on the real outputs.

import (
	"bytes"
	"context"
	"encoding/json"
	"fmt"
	"go/types"
	"math/big"
	"os"
	"os/exec"
	"path/filepath"
	"strings"
	"time"

	"golang.org/x/tools/go/ssa"
)

type ReplayResult struct {
	Confirmed bool     `json:"confirmed"`
	Note      string   `json:"note"`
	Call      string   `json:"call,omitempty"`
	Observed  string   `json:"observed,omitempty"`
	Output    string   `json:"output,omitempty"`
	Inputs    []string `json:"inputs,omitempty"`
}

// extraInputs lists derived terms whose model values are needed to rebuild Go values for the parameters.
func (e *Enc) extraInputs() []string {
	var out []string
	for _, p := range e.paramOrder() {
		tt := e.paramTerms[p]
		switch tt.Sort {
		case SIface:
			out = append(out, fmt.Sprintf("(tag %s)", tt.S))
			for k, s := range e.boxes {
				if s == SInt || s == SBool {
					out = append(out, fmt.Sprintf("(unbox_%s %s)", k, tt.S))
				}
			}
			if _, ok := e.heapSort["ghost:bigval"]; ok {
				if _, ok := e.boxes["P_py_BigInt"]; ok {
					out = append(out, fmt.Sprintf("(select H_ghost_bigval_0 (unbox_P_py_BigInt %s))", tt.S))
				}
			}
		case SInt:
			if tt.T != nil && isBigIntPtr(tt.T) {
				if _, ok := e.heapSort["ghost:bigval"]; ok {
					out = append(out, fmt.Sprintf("(select H_ghost_bigval_0 %s)", tt.S))
				}
			}
		}
	}
	return out
}

func isBigIntPtr(t types.Type) bool {
	s := types.TypeString(t, nil)
	return s == "*"+repoModule+"/py.BigInt" || s == "*math/big.Int"
}

func (e *Enc) paramOrder() []string {
	var out []string
	for i, p := range e.top.Params {
		name := p.Name()
		if e.topCon != nil && i < len(e.topCon.Params) {
			name = e.topCon.Params[i]
		}
		out = append(out, name)
	}
	return out
}

func smtInt(s string) (*big.Int, bool) {
	s = strings.TrimSpace(s)
	neg := false
	if strings.HasPrefix(s, "(-") {
		neg = true
		s = strings.TrimSpace(strings.TrimSuffix(strings.TrimPrefix(s, "(-"), ")"))
	}
	v, ok := new(big.Int).SetString(s, 10)
	if !ok {
		return nil, false
	}
	if neg {
		v.Neg(v)
	}
	return v, true
}

// goValue builds a Go expression (inside package pkgName of the function) for a parameter from the model.
func (e *Enc) goValue(name string, model map[string]string, q string) (string, error) {
	tt := e.paramTerms[name]
	t := tt.T
	get := func(term string) (string, bool) {
		v, ok := model[term]
		return v, ok
	}
	switch tt.Sort {
	case SBool:
		v, _ := get(tt.S)
		return fmt.Sprintf("%s(%s)", e.goType(t, q), v), nil
	case SInt:
		if isBigIntPtr(t) {
			v, ok := get(fmt.Sprintf("(select H_ghost_bigval_0 %s)", tt.S))
			n, ok2 := smtInt(v)
			if !ok || !ok2 {
				return "", fmt.Errorf("no big value for %s", name)
			}
			return fmt.Sprintf("(%s)(gvcBig(%q))", e.goType(t, q), n.String()), nil
		}
		if _, _, isInt := intInfo(t); isInt {
			v, _ := get(tt.S)
			n, ok := smtInt(v)
			if !ok {
				return "", fmt.Errorf("bad model value %q for %s", v, name)
			}
			return fmt.Sprintf("%s(%s)", e.goType(t, q), n.String()), nil
		}
		return "", fmt.Errorf("parameter %s of type %s cannot be rebuilt", name, t)
	case SIface:
		tg, _ := get(fmt.Sprintf("(tag %s)", tt.S))
		tn, ok := smtInt(tg)
		if !ok {
			return "", fmt.Errorf("no tag for %s", name)
		}
		if tn.Sign() == 0 {
			return "nil", nil
		}
		for k, id := range e.typeIDs {
			if int64(id) != tn.Int64() {
				continue
			}
			mk := mangle(k)
			switch k {
			case "py.Int":
				v, _ := get(fmt.Sprintf("(unbox_%s %s)", mk, tt.S))
				n, ok := smtInt(v)
				if !ok {
					return "", fmt.Errorf("bad Int payload")
				}
				return fmt.Sprintf("%sInt(%s)", q, n.String()), nil
			case "py.Bool":
				v, _ := get(fmt.Sprintf("(unbox_%s %s)", mk, tt.S))
				return fmt.Sprintf("%sBool(%s)", q, v), nil
			case "*py.BigInt":
				v, _ := get(fmt.Sprintf("(select H_ghost_bigval_0 (unbox_P_py_BigInt %s))", tt.S))
				n, ok := smtInt(v)
				if !ok {
					return "", fmt.Errorf("bad BigInt payload")
				}
				return fmt.Sprintf("(*%sBigInt)(gvcBig(%q))", q, n.String()), nil
			case "py.NoneType":
				return q + "None", nil
			}
			return "", fmt.Errorf("cannot rebuild a %s for %s", k, name)
		}
		// a dynamic type the function never looks at: any object outside the mentioned types will do
		return q + "String(\"gvc-other\")", nil
	}
	return "", fmt.Errorf("parameter %s of sort %s cannot be rebuilt", name, tt.Sort)
}

func (e *Enc) goType(t types.Type, q string) string {
	s := types.TypeString(t, func(p *types.Package) string {
		if e.top.Pkg != nil && p == e.top.Pkg.Pkg {
			return ""
		}
		return p.Name()
	})
	return s
}

type obsValue struct {
	Kind string `json:"kind"`
	V    string `json:"v"`
	Base string `json:"base"`
}

type observation struct {
	Panic   string     `json:"panic"`
	Results []obsValue `json:"results"`
}

const replayHelpers = `
func gvcBig(s string) *big.Int { v, _ := new(big.Int).SetString(s, 10); return v }

func gvcObs(x interface{}) map[string]string {
	m := map[string]string{}
	if x == nil {
		m["kind"] = "nil"
		return m
	}
	switch v := x.(type) {
	case QQInt:
		m["kind"], m["v"] = "Int", fmt.Sprint(int64(v))
	case *QQBigInt:
		m["kind"], m["v"] = "BigInt", (*big.Int)(v).String()
	case QQBool:
		m["kind"], m["v"] = "Bool", fmt.Sprint(bool(v))
	case QQFloat:
		m["kind"], m["v"] = "Float", fmt.Sprint(float64(v))
	case QQString:
		m["kind"], m["v"] = "String", string(v)
	case *QQException:
		m["kind"] = "Exception"
		if v.Base != nil {
			m["base"] = v.Base.Name
		}
	case QQExceptionInfo:
		m["kind"] = "ExceptionInfo"
		if v.Type != nil {
			m["base"] = v.Type.Name
		}
	case int:
		m["kind"], m["v"] = "int", fmt.Sprint(v)
	case int64:
		m["kind"], m["v"] = "int", fmt.Sprint(v)
	case int32:
		m["kind"], m["v"] = "int", fmt.Sprint(v)
	case bool:
		m["kind"], m["v"] = "bool", fmt.Sprint(v)
	default:
		if x == QQNone {
			m["kind"] = "None"
		} else if x == QQNotImplemented {
			m["kind"] = "NotImplemented"
		} else {
			m["kind"], m["v"] = "other", fmt.Sprintf("%T", x)
		}
	}
	return m
}
`

// tryReplay runs the real function on the model's inputs.
func tryReplay(w *World, e *Enc, r *Result) *ReplayResult {
	rep := &ReplayResult{}
	fn := e.top
	if fn.Pkg == nil {
		rep.Note = "function has no package"
		return rep
	}
	pkgPath := fn.Pkg.Pkg.Path()
	pyPath := repoModule + "/py"
	q := "py."
	if pkgPath == pyPath {
		q = ""
	}
	var argExprs []string
	for _, name := range e.paramOrder() {
		ge, err := e.goValue(name, r.Model, q)
		if err != nil {
			rep.Note = "inputs cannot be rebuilt: " + err.Error()
			return rep
		}
		argExprs = append(argExprs, ge)
		rep.Inputs = append(rep.Inputs, name+" = "+ge)
	}
	// call expression
	var call string
	if fn.Signature.Recv() != nil {
		call = fmt.Sprintf("(%s).%s(%s)", argExprs[0], fn.Name(), strings.Join(argExprs[1:], ", "))
	} else {
		call = fmt.Sprintf("%s(%s)", fn.Name(), strings.Join(argExprs, ", "))
	}
	rep.Call = call
	nres := fn.Signature.Results().Len()
	var lhs, obs []string
	for i := 0; i < nres; i++ {
		lhs = append(lhs, fmt.Sprintf("r%d", i))
		obs = append(obs, fmt.Sprintf("gvcObs(r%d)", i))
	}
	assign := ""
	if nres > 0 {
		assign = strings.Join(lhs, ", ") + " := "
	}
	helpers := strings.ReplaceAll(replayHelpers, "QQ", q)
	imports := "\"encoding/json\"\n\t\"fmt\"\n\t\"math/big\"\n\t\"testing\""
	if q != "" {
		imports += "\n\tpy \"" + pyPath + "\""
	}
	src := fmt.Sprintf(`package %s

import (
	%s
)

var _ = big.NewInt
%s
func TestGvcReplay(t *testing.T) {
	out := map[string]interface{}{}
	func() {
		defer func() {
			if p := recover(); p != nil {
				out["panic"] = fmt.Sprint(p)
			}
		}()
		%s%s
		out["results"] = []map[string]string{%s}
	}()
	b, _ := json.Marshal(out)
	fmt.Println("GVC-REPLAY " + string(b))
}
`, fn.Pkg.Pkg.Name(), imports, helpers, assign, call, strings.Join(obs, ", "))

	dir := filepath.Join(w.Repo, strings.TrimPrefix(strings.TrimPrefix(pkgPath, repoModule), "/"))
	tmp, err := os.MkdirTemp("", "gvc-replay-")
	if err != nil {
		rep.Note = err.Error()
		return rep
	}
	defer os.RemoveAll(tmp)
	testFile := filepath.Join(tmp, "zz_gvc_replay_test.go")
	os.WriteFile(testFile, []byte(src), 0o644)
	ov := map[string]map[string]string{"Replace": {filepath.Join(dir, "zz_gvc_replay_test.go"): testFile}}
	ovb, _ := json.Marshal(ov)
	ovFile := filepath.Join(tmp, "overlay.json")
	os.WriteFile(ovFile, ovb, 0o644)
	ctx, cancel := context.WithTimeout(context.Background(), 120*time.Second)
	defer cancel()
	cmd := exec.CommandContext(ctx, "bash", "-c", fmt.Sprintf("ulimit -v 4194304; cd %q && go test -overlay %q -vet=off -count=1 -timeout 60s -run '^TestGvcReplay$' -v .", dir, ovFile))
	cmd.Env = append(os.Environ(), "GOFLAGS=-mod=mod", "GOPROXY=off", "GOSUMDB=off", "GOTOOLCHAIN=local")
	var buf bytes.Buffer
	cmd.Stdout, cmd.Stderr = &buf, &buf
	cmd.Run()
	out := buf.String()
	rep.Output = truncate(out, 1500)
	i := strings.Index(out, "GVC-REPLAY ")
	if i < 0 {
		rep.Note = "replay test did not produce an observation"
		return rep
	}
	line := out[i+len("GVC-REPLAY "):]
	if j := strings.Index(line, "\n"); j >= 0 {
		line = line[:j]
	}
	rep.Observed = line
	var ob observation
	if err := json.Unmarshal([]byte(line), &ob); err != nil {
		rep.Note = "bad observation: " + err.Error()
		return rep
	}
	// ---- judge
	switch r.Ob.Kind {
	case "safe", "requires":
		if ob.Panic != "" {
			rep.Confirmed = true
			rep.Note = "the real function panics on the model's input: " + ob.Panic
		} else {
			rep.Note = "the real function does not panic on the model's input (obligation is a proof failure, not a confirmed fault)"
		}
		return rep
	case "ensures":
		if ob.Panic != "" {
			rep.Confirmed = true
			rep.Note = "the real function panics on the model's input: " + ob.Panic
			return rep
		}
		ok, note := e.judgeEnsures(r, &ob)
		rep.Confirmed = ok
		rep.Note = note
		return rep
	}
	rep.Note = "obligation kind " + r.Ob.Kind + " has no replay judge"
	return rep
}

// judgeEnsures re-evaluates the violated ensures clause with the real outputs.
func (e *Enc) judgeEnsures(r *Result, ob *observation) (bool, string) {
	c := e.topCon
	if c == nil {
		return false, "no contract"
	}
	label := r.Ob.Name[strings.LastIndex(r.Ob.Name, ":")+1:]
	var clause *Clause
	for i := range c.Ensures {
		if c.Ensures[i].Label == label {
			clause = &c.Ensures[i]
		}
	}
	if clause == nil {
		return false, "clause not found"
	}
	fn := e.top
	post := e.newState("rp")
	var asserts []string
	// inputs pinned to the model
	for _, in := range append(append([]string{}, r.Ob.Inputs...), e.extraInputs()...) {
		if v, ok := r.Model[in]; ok && !strings.Contains(v, "!") && !strings.Contains(v, "lambda") && !strings.Contains(v, "as const") {
			asserts = append(asserts, fmt.Sprintf("(assert (= %s %s))", in, v))
		}
	}
	env := &CEnv{e: e, vars: map[string]TT{}, cur: post, old: e.entryState, pkg: c.Pkg, guard: tTrue}
	for n, v := range e.paramTerms {
		env.vars[n] = v
	}
	bigKey := ""
	if _, ok := e.heapSort["ghost:bigval"]; ok {
		bigKey = "ghost:bigval"
	}
	for i, rn := range c.Results {
		if i >= len(ob.Results) {
			break
		}
		rt := fn.Signature.Results().At(i).Type()
		x := e.fresh("rr_"+rn, e.sortOf(rt))
		env.vars[rn] = TT{x, rt}
		o := ob.Results[i]
		pyT := func(name string) types.Type {
			t, _ := e.w.lookupType(name, repoModule+"/py")
			return t
		}
		switch o.Kind {
		case "nil":
			asserts = append(asserts, fmt.Sprintf("(assert (= %s %s))", x.S, e.zeroOfSort(x.Sort, rt).S))
		case "Int":
			if x.Sort == SIface {
				asserts = append(asserts, fmt.Sprintf("(assert (= %s %s))", x.S, e.box(pyT("Int"), Term{smtNum(o.V), SInt}).S))
				asserts = append(asserts, fmt.Sprintf("(assert (= (tag %s) %s))", x.S, e.typeID(pyT("Int")).S))
				asserts = append(asserts, fmt.Sprintf("(assert (= %s %s))", e.unbox(pyT("Int"), x).S, smtNum(o.V)))
			} else {
				asserts = append(asserts, fmt.Sprintf("(assert (= %s %s))", x.S, smtNum(o.V)))
			}
		case "int":
			asserts = append(asserts, fmt.Sprintf("(assert (= %s %s))", x.S, smtNum(o.V)))
		case "Bool", "bool":
			if x.Sort == SIface {
				asserts = append(asserts, fmt.Sprintf("(assert (= (tag %s) %s))", x.S, e.typeID(pyT("Bool")).S))
				asserts = append(asserts, fmt.Sprintf("(assert (= %s %s))", e.unbox(pyT("Bool"), x).S, o.V))
			} else {
				asserts = append(asserts, fmt.Sprintf("(assert (= %s %s))", x.S, o.V))
			}
		case "BigInt":
			if bigKey == "" {
				return false, "BigInt result but no bigval ghost"
			}
			ref := e.fresh("rr_ref", SInt)
			asserts = append(asserts, fmt.Sprintf("(assert (> %s 0))", ref.S))
			if x.Sort == SIface {
				asserts = append(asserts, fmt.Sprintf("(assert (= (tag %s) %s))", x.S, e.typeID(pyT("*BigInt")).S))
				asserts = append(asserts, fmt.Sprintf("(assert (= %s %s))", e.unbox(pyT("*BigInt"), x).S, ref.S))
			} else {
				asserts = append(asserts, fmt.Sprintf("(assert (= %s %s))", x.S, ref.S))
			}
			asserts = append(asserts, fmt.Sprintf("(assert (= (select %s %s) %s))", e.heapGet(post, bigKey).S, ref.S, smtNum(o.V)))
		case "Exception":
			ref := e.fresh("rr_exc", SInt)
			asserts = append(asserts, fmt.Sprintf("(assert (> %s 0))", ref.S))
			asserts = append(asserts, fmt.Sprintf("(assert (= (tag %s) %s))", x.S, e.typeID(pyT("*Exception")).S))
			asserts = append(asserts, fmt.Sprintf("(assert (= %s %s))", e.unbox(pyT("*Exception"), x).S, ref.S))
			asserts = append(asserts, fmt.Sprintf("(assert (not (= %s nil_iface)))", x.S))
			// Base equals the named exception type and differs from all others mentioned
			if obj := e.w.lookupObject(o.Base, repoModule+"/py"); obj != nil {
				if bt, err := env.objectValue(obj); err == nil {
					if tt, err2 := env.selectField(TT{ref, pyT("*Exception")}, "Base"); err2 == nil {
						asserts = append(asserts, fmt.Sprintf("(assert (= %s %s))", tt.S, bt.S))
					}
				}
			}
			asserts = append(asserts, exceptionTypesDistinct(e, env)...)
		case "None", "NotImplemented":
			if obj := e.w.lookupObject(o.Kind, repoModule+"/py"); obj != nil {
				if v, err := env.objectValue(obj); err == nil && v.Sort == x.Sort {
					asserts = append(asserts, fmt.Sprintf("(assert (= %s %s))", x.S, v.S))
				} else if o.Kind == "None" {
					asserts = append(asserts, fmt.Sprintf("(assert (= (tag %s) %s))", x.S, e.typeID(pyT("NoneType")).S))
				}
			}
		default:
			// an object of a type the clause does not interpret: its tag differs from every mentioned type
			asserts = append(asserts, fmt.Sprintf("(assert (not (= %s nil_iface)))", x.S))
			for k := range e.typeIDs {
				asserts = append(asserts, fmt.Sprintf("(assert (not (= (tag %s) id_%s)))", x.S, mangle(k)))
			}
		}
	}
	g, err := env.evalBool(clause.E)
	if err != nil {
		return false, "clause cannot be evaluated on the observation: " + err.Error()
	}
	hdr := ""
	var full strings.Builder
	hdr = e.header() // generated last: evaluating the clause added declarations
	full.WriteString(hdr)
	for _, l := range e.lines[:r.Ob.Prefix] {
		if !strings.HasPrefix(l, "(assert") {
			full.WriteString(l + "\n")
		}
	}
	for _, gi := range e.w.CS.GInvs {
		genv := &CEnv{e: e, vars: map[string]TT{}, cur: e.entryState, old: e.entryState, pkg: gi.Pkg, guard: tTrue}
		if t, err := genv.evalBool(gi.E); err == nil {
			full.WriteString("(assert " + t.S + ")\n")
		}
	}
	for _, a := range asserts {
		full.WriteString(a + "\n")
	}
	// the observation must be consistent, and the clause must be false on it
	consistent := full.String() + "(check-sat)\n"
	out1, _, _ := runSolver(context.Background(), solvers[0], consistent, 10000, 0)
	if firstAnswer(out1) != "sat" {
		return false, "observation could not be expressed consistently (" + firstAnswer(out1) + ")"
	}
	holds := full.String() + "(assert " + g.S + ")\n(check-sat)\n"
	out2, _, _ := runSolver(context.Background(), solvers[0], holds, 10000, 0)
	switch firstAnswer(out2) {
	case "unsat":
		return true, fmt.Sprintf("clause %q is false on the real outputs", clause.Src)
	case "sat":
		return false, fmt.Sprintf("clause %q can hold on the real outputs (model was spurious)", clause.Src)
	}
	return false, "solver could not evaluate the clause on the real outputs"
}

func exceptionTypesDistinct(e *Enc, env *CEnv) []string {
	names := []string{"ValueError", "ZeroDivisionError", "OverflowError", "TypeError", "IndexError", "StopIteration", "KeyError", "AttributeError", "NameError", "SyntaxError", "SystemError", "MemoryError", "ImportError", "RuntimeError"}
	var terms []string
	for _, n := range names {
		if obj := e.w.lookupObject(n, repoModule+"/py"); obj != nil {
			if v, err := env.objectValue(obj); err == nil {
				terms = append(terms, v.S)
			}
		}
	}
	if len(terms) < 2 {
		return nil
	}
	return []string{"(assert (distinct " + strings.Join(terms, " ") + "))"}
}

func smtNum(s string) string {
	v, ok := new(big.Int).SetString(s, 10)
	if !ok {
		return "0"
	}
	return intLit(v).S
}

func runReplayFile(repo, verif, path string) int {
	data, err := os.ReadFile(path)
	if err != nil {
		fmt.Fprintln(os.Stderr, err)
		return 2
	}
	var info map[string]interface{}
	if err := json.Unmarshal(data, &info); err != nil {
		fmt.Fprintln(os.Stderr, err)
		return 2
	}
	fmt.Printf("obligation: %v\nreason: %v\nstatus: %v\n", info["obligation"], info["reason"], info["status"])
	if m, ok := info["model"]; ok {
		fmt.Printf("model: %v\n", m)
	}
	if rp, ok := info["replay"]; ok {
		b, _ := json.MarshalIndent(rp, "", " ")
		fmt.Printf("replay: %s\n", b)
	}
	// re-run the stored script so that the failure can be observed again
	if s, ok := info["script"].(string); ok {
		out, secs, _ := runSolver(context.Background(), solvers[0], s, 20000, 0)
		fmt.Printf("re-run of the stored query on %s: %s (%.2fs)\n", solvers[0].Name, firstAnswer(out), secs)
	}
	return 0
}

var _ = ssa.BuilderMode(0)
