package main

func checkLemmas(w *World, ps *PropSpec, tier string, seed int) []*Result { return checkImmutable(w) }
