package main

func runCheck(repo, verif, prop, tier, keep string, claim bool) int { return 2 }
func runReplayFile(repo, verif, path string) int                  { return 2 }
func runSelftest(repo, verif string, args []string) int           { return 2 }
