package main

func checkLemmas(w *World, ps *PropSpec, tier string, seed int) []*Result { return nil }
func runSelftest(repo, verif string, args []string) int                 { return 2 }
