package main

func checkLemmas(w *World, ps *PropSpec, tier string, seed int) []*Result {
	rs := checkImmutable(w)
	for _, l := range ps.Lemmas {
		if l == "isolation" {
			rs = append(rs, checkIsolation(w)...)
		}
		if l == "determinism" {
			rs = append(rs, checkDeterminism(w, []string{"parser", "ast", "symtable", "compile"})...)
		}
	}
	return rs
}
