package main

import (
	"fmt"
	"go/token"
	"go/types"
	"os"
	"path/filepath"
	"sort"
	"strings"

	"golang.org/x/tools/go/packages"
	"golang.org/x/tools/go/ssa"
	"golang.org/x/tools/go/ssa/ssautil"
)

const repoModule = "github.com/go-python/gpython"

type World struct {
	mutParams map[*ssa.Function]map[int]bool // see mutatedParams
	Repo     string
	Verif    string
	Prog     *ssa.Program
	Pkgs     map[string]*ssa.Package // by import path
	TPkgs    map[string]*types.Package
	Funcs    map[string]*ssa.Function // by fn.String()
	CS       *Contracts
	MutGlob  map[*ssa.Global]bool // globals stored to outside init (or address escaping)
	SpecSigs map[string]SpecSig   // SMT spec functions from /verif/spec/*.smt2
	SpecText string
	SpecItems []SpecItem
	Alias    map[string]string // stable alias of anonymous functions -> SSA name
	LoadSecs float64
}

// SpecItem is one top-level form of a spec file.  Assertions (axioms/lemmas) are included in a query only when the
// symbols that trigger them occur in it, so that queries not using them stay quantifier-free.
type SpecItem struct {
	Text     string
	IsAssert bool
	Needs    []string // for asserts: spec symbols that must be referenced (";@for name" or the spec symbols it mentions)
}

type SpecSig struct {
	Args []string
	Ret  string
}

var loadPatterns = []string{"./py", "./vm", "./compile", "./symtable", "./parser", "./stdlib", "./repl", "./stdlib/builtin", "./stdlib/sys", "./ast"}

func LoadWorld(repo, verif string, patterns []string) (*World, error) {
	if len(patterns) == 0 {
		patterns = loadPatterns
	}
	cfg := &packages.Config{
		Mode:       packages.LoadAllSyntax,
		Dir:        repo,
		BuildFlags: []string{"-tags=verif"},
		Env:        append(os.Environ(), "GOFLAGS=-mod=mod", "GOPROXY=off", "GOSUMDB=off", "GOTOOLCHAIN=local"),
	}
	pkgs, err := packages.Load(cfg, patterns...)
	if err != nil {
		return nil, err
	}
	nerr := 0
	packages.Visit(pkgs, nil, func(p *packages.Package) {
		for _, e := range p.Errors {
			fmt.Fprintf(os.Stderr, "load error: %v\n", e)
			nerr++
		}
	})
	if nerr > 0 {
		return nil, fmt.Errorf("%d package load errors (the tree must compile)", nerr)
	}
	prog, _ := ssautil.AllPackages(pkgs, ssa.GlobalDebug)
	prog.Build()
	w := &World{Repo: repo, Verif: verif, Prog: prog, Pkgs: map[string]*ssa.Package{}, TPkgs: map[string]*types.Package{},
		Funcs: map[string]*ssa.Function{}, MutGlob: map[*ssa.Global]bool{}, SpecSigs: map[string]SpecSig{}}
	for _, p := range prog.AllPackages() {
		w.Pkgs[p.Pkg.Path()] = p
		w.TPkgs[p.Pkg.Path()] = p.Pkg
	}
	for fn := range ssautil.AllFunctions(prog) {
		w.Funcs[fn.String()] = fn
	}
	// globals written outside init, in packages of the module
	for fn := range ssautil.AllFunctions(prog) {
		if fn.Pkg == nil || !strings.HasPrefix(fn.Pkg.Pkg.Path(), repoModule) {
			continue
		}
		isInit := fn.Name() == "init" || strings.HasPrefix(fn.Name(), "init#")
		if fn.Parent() != nil {
			// closures inside init count as init only if the outermost parent is init
			p := fn
			for p.Parent() != nil {
				p = p.Parent()
			}
			isInit = p.Name() == "init" || strings.HasPrefix(p.Name(), "init#")
		}
		for _, b := range fn.Blocks {
			for _, ins := range b.Instrs {
				for _, op := range ins.Operands(nil) {
					g, ok := (*op).(*ssa.Global)
					if !ok {
						continue
					}
					switch x := ins.(type) {
					case *ssa.UnOp:
						// load
					case *ssa.Store:
						if x.Addr == g && !isInit {
							w.MutGlob[g] = true
						}
						if x.Val == ssa.Value(g) {
							w.MutGlob[g] = true // address stored somewhere
						}
					case *ssa.FieldAddr, *ssa.IndexAddr:
						// address of a part of a global composite: treat as mutable unless in init
						if !isInit {
							w.MutGlob[g] = true
						}
					default:
						// passed to a call or otherwise escaping
						if !isInit {
							w.MutGlob[g] = true
						}
					}
				}
			}
		}
	}
	// contracts
	pkgDirs := map[string]string{}
	for path := range w.Pkgs {
		if strings.HasPrefix(path, repoModule) {
			rel := strings.TrimPrefix(strings.TrimPrefix(path, repoModule), "/")
			pkgDirs[filepath.Join(repo, rel)] = path
		}
	}
	cs, err := LoadAllContracts(repo, pkgDirs, filepath.Join(verif, "contracts"))
	if err != nil {
		return nil, err
	}
	w.CS = cs
	// anonymous functions are addressed as "<pkg>.@<file>:<n>" (n-th function literal of that file in source order),
	// which does not move when unrelated init functions are added elsewhere in the package
	w.Alias = map[string]string{}
	type anon struct {
		fn  *ssa.Function
		pos token.Pos
	}
	byFile := map[string][]anon{}
	for fn := range ssautil.AllFunctions(prog) {
		if fn.Parent() == nil || !fn.Pos().IsValid() || !strings.HasPrefix(pkgPathOf(fn), repoModule) {
			continue
		}
		ps := prog.Fset.Position(fn.Pos())
		k := pkgPathOf(fn) + ".@" + filepath.Base(ps.Filename)
		byFile[k] = append(byFile[k], anon{fn, fn.Pos()})
	}
	for k, list := range byFile {
		sort.Slice(list, func(i, j int) bool { return list[i].pos < list[j].pos })
		for i, a := range list {
			w.Alias[fmt.Sprintf("%s:%d", k, i+1)] = a.fn.String()
		}
	}
	for alias, real := range w.Alias {
		if c := cs.Funcs[alias]; c != nil {
			c.Key = real
			cs.Funcs[real] = c
			delete(cs.Funcs, alias)
		}
	}
	// spec prelude
	specs, _ := filepath.Glob(filepath.Join(verif, "spec", "*.smt2"))
	sort.Strings(specs)
	var sb strings.Builder
	for _, f := range specs {
		data, err := os.ReadFile(f)
		if err != nil {
			return nil, err
		}
		sb.WriteString("; ---- " + filepath.Base(f) + "\n")
		sb.Write(data)
		sb.WriteString("\n")
		parseSpecSigs(string(data), w.SpecSigs)
	}
	w.SpecText = sb.String()
	w.SpecItems = splitSpecItems(w.SpecText, w.SpecSigs)
	return w, nil
}

// parseSpecSigs extracts (define-fun name ((a S) ...) R and (declare-fun name (S ...) R) headers.
func parseSpecSigs(text string, out map[string]SpecSig) {
	toks := sexpTokens(text)
	for i := 0; i+3 < len(toks); i++ {
		if toks[i] != "(" {
			continue
		}
		kw := toks[i+1]
		if kw != "define-fun" && kw != "declare-fun" && kw != "define-fun-rec" {
			continue
		}
		name := toks[i+2]
		j := i + 3
		if toks[j] != "(" {
			continue
		}
		j++
		var args []string
		if kw == "declare-fun" {
			for toks[j] != ")" {
				s, nj := readSort(toks, j)
				args = append(args, s)
				j = nj
			}
			j++
		} else {
			for toks[j] != ")" {
				// ( name sort )
				j += 2
				s, nj := readSort(toks, j)
				args = append(args, s)
				j = nj + 1
			}
			j++
		}
		ret, _ := readSort(toks, j)
		out[name] = SpecSig{args, ret}
	}
}

func readSort(toks []string, j int) (string, int) {
	if toks[j] != "(" {
		return toks[j], j + 1
	}
	depth := 0
	var parts []string
	for {
		t := toks[j]
		parts = append(parts, t)
		if t == "(" {
			depth++
		} else if t == ")" {
			depth--
			if depth == 0 {
				j++
				break
			}
		}
		j++
	}
	s := strings.Join(parts, " ")
	s = strings.ReplaceAll(s, "( ", "(")
	s = strings.ReplaceAll(s, " )", ")")
	return s, j
}

func sexpTokens(text string) []string {
	var toks []string
	i := 0
	for i < len(text) {
		c := text[i]
		switch {
		case c == ';':
			for i < len(text) && text[i] != '\n' {
				i++
			}
		case c == '(' || c == ')':
			toks = append(toks, string(c))
			i++
		case c == ' ' || c == '\n' || c == '\t' || c == '\r':
			i++
		case c == '"':
			j := i + 1
			for j < len(text) && text[j] != '"' {
				j++
			}
			toks = append(toks, text[i:j+1])
			i = j + 1
		default:
			j := i
			for j < len(text) && !strings.ContainsRune("() \n\t\r;", rune(text[j])) {
				j++
			}
			toks = append(toks, text[i:j])
			i = j
		}
	}
	return toks
}

// lookupType resolves a type name used in contracts: "Int", "*BigInt", "py.Int", "*math/big.Int", "int", "bool".
func (w *World) lookupType(name, pkgPath string) (types.Type, error) {
	if strings.HasPrefix(name, "*") {
		t, err := w.lookupType(name[1:], pkgPath)
		if err != nil {
			return nil, err
		}
		return types.NewPointer(t), nil
	}
	if strings.HasPrefix(name, "[]") {
		t, err := w.lookupType(name[2:], pkgPath)
		if err != nil {
			return nil, err
		}
		return types.NewSlice(t), nil
	}
	if obj := types.Universe.Lookup(name); obj != nil {
		if tn, ok := obj.(*types.TypeName); ok {
			return tn.Type(), nil
		}
	}
	pkg := pkgPath
	id := name
	if i := strings.LastIndex(name, "."); i >= 0 {
		pkg = name[:i]
		id = name[i+1:]
		if !strings.Contains(pkg, "/") {
			// short package name: py, vm, big ...
			for path := range w.TPkgs {
				if path == pkg || strings.HasSuffix(path, "/"+pkg) {
					pkg = path
					break
				}
			}
		}
	}
	tp := w.TPkgs[pkg]
	if tp == nil {
		return nil, fmt.Errorf("unknown package %q for type %q", pkg, name)
	}
	obj := tp.Scope().Lookup(id)
	if obj == nil {
		// fall back to py for common names
		if pp := w.TPkgs[repoModule+"/py"]; pp != nil {
			obj = pp.Scope().Lookup(id)
		}
	}
	if obj == nil {
		return nil, fmt.Errorf("unknown type %q in %s", id, pkg)
	}
	tn, ok := obj.(*types.TypeName)
	if !ok {
		return nil, fmt.Errorf("%q is not a type", name)
	}
	return tn.Type(), nil
}

func (w *World) lookupObject(name, pkgPath string) types.Object {
	pkg := pkgPath
	id := name
	if i := strings.LastIndex(name, "."); i >= 0 {
		pkg = name[:i]
		id = name[i+1:]
		if !strings.Contains(pkg, "/") {
			for path := range w.TPkgs {
				if path == pkg || strings.HasSuffix(path, "/"+pkg) {
					pkg = path
					break
				}
			}
		}
	}
	if tp := w.TPkgs[pkg]; tp != nil {
		if o := tp.Scope().Lookup(id); o != nil {
			return o
		}
	}
	if pp := w.TPkgs[repoModule+"/py"]; pp != nil {
		if o := pp.Scope().Lookup(id); o != nil {
			return o
		}
	}
	return nil
}

func splitSpecItems(text string, sigs map[string]SpecSig) []SpecItem {
	var items []SpecItem
	i := 0
	pendingFor := ""
	for i < len(text) {
		c := text[i]
		switch {
		case c == ';':
			j := i
			for j < len(text) && text[j] != '\n' {
				j++
			}
			line := text[i:j]
			if strings.HasPrefix(line, ";@for ") {
				pendingFor = strings.TrimSpace(strings.TrimPrefix(line, ";@for "))
			}
			i = j
		case c == '(':
			depth := 0
			j := i
			for j < len(text) {
				if text[j] == ';' {
					for j < len(text) && text[j] != '\n' {
						j++
					}
					continue
				}
				if text[j] == '(' {
					depth++
				} else if text[j] == ')' {
					depth--
					if depth == 0 {
						j++
						break
					}
				}
				j++
			}
			form := text[i:j]
			it := SpecItem{Text: form}
			if strings.HasPrefix(form, "(assert") {
				it.IsAssert = true
				if pendingFor != "" {
					it.Needs = strings.Fields(pendingFor)
				} else {
					seen := map[string]bool{}
					for _, tok := range sexpTokens(form) {
						if _, ok := sigs[tok]; ok && !seen[tok] {
							seen[tok] = true
							it.Needs = append(it.Needs, tok)
						}
					}
				}
			}
			pendingFor = ""
			items = append(items, it)
			i = j
		default:
			i++
		}
	}
	return items
}
