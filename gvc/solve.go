package main

import (
	"bufio"
	"bytes"
	"runtime"
	"context"
	"fmt"
	"os"
	"os/exec"
	"path/filepath"
	"strings"
	"sync"
	"time"
)

type Result struct {
	Ob     *Obligation
	Status string // unsat, sat, unknown, timeout, error
	Solver string
	Secs   float64
	Model  map[string]string
	Output string
	Size   int
}

type SolverCfg struct {
	Name string
	Args func(timeoutMs int, seed int) []string
}

var solvers = []SolverCfg{
	{"z3-new-5.1.0", func(ms, seed int) []string {
		return []string{"z3-new", "-smt2", "-in", fmt.Sprintf("-t:%d", ms), fmt.Sprintf("smt.random_seed=%d", seed), fmt.Sprintf("sat.random_seed=%d", seed)}
	}},
	{"z3-4.8.12", func(ms, seed int) []string {
		return []string{"/usr/bin/z3", "-smt2", "-in", fmt.Sprintf("-t:%d", ms), fmt.Sprintf("smt.random_seed=%d", seed)}
	}},
	{"cvc5-1.0", func(ms, seed int) []string {
		return []string{"cvc5", "--lang=smt2", fmt.Sprintf("--tlimit-per=%d", ms), fmt.Sprintf("--seed=%d", seed), "--incremental"}
	}},
}

// solverSlots bounds the number of solver processes running at once (one per core), so that per-query time limits
// measure solver work and not queueing.
var solverSlots = make(chan struct{}, runtime.NumCPU())

func runSolver(ctx context.Context, cfg SolverCfg, script string, timeoutMs, seed int) (string, float64, error) {
	select {
	case solverSlots <- struct{}{}:
		defer func() { <-solverSlots }()
	case <-ctx.Done():
		return "", 0, ctx.Err()
	}
	args := cfg.Args(timeoutMs, seed)
	cctx, cancel := context.WithTimeout(ctx, time.Duration(timeoutMs+3000)*time.Millisecond)
	defer cancel()
	cmd := exec.CommandContext(cctx, args[0], args[1:]...)
	if strings.HasPrefix(cfg.Name, "cvc5") {
		// cvc5 wants produce-models before set-logic; header already starts with options
	}
	cmd.Stdin = strings.NewReader(script)
	var out bytes.Buffer
	cmd.Stdout = &out
	cmd.Stderr = &out
	t0 := time.Now()
	err := cmd.Run()
	return out.String(), time.Since(t0).Seconds(), err
}

func firstAnswer(out string) string {
	for _, l := range strings.Split(out, "\n") {
		l = strings.TrimSpace(l)
		switch l {
		case "unsat", "sat", "unknown", "timeout":
			return l
		}
	}
	if strings.Contains(out, "timeout") || strings.Contains(out, "interrupted") {
		return "timeout"
	}
	return "error"
}

// parseValues parses the answer of (get-value (t1 t2 ...)): ((t1 v1) (t2 v2) ...) where terms and values are s-expressions.
func parseValues(out string) map[string]string {
	i := strings.Index(out, "((")
	if i < 0 {
		return nil
	}
	toks := sexpTokens(out[i:])
	m := map[string]string{}
	readSexp := func(j int) (string, int) {
		if j >= len(toks) {
			return "", j
		}
		if toks[j] != "(" {
			return toks[j], j + 1
		}
		depth := 0
		var parts []string
		for j < len(toks) {
			parts = append(parts, toks[j])
			if toks[j] == "(" {
				depth++
			} else if toks[j] == ")" {
				depth--
				if depth == 0 {
					j++
					break
				}
			}
			j++
		}
		v := strings.Join(parts, " ")
		v = strings.ReplaceAll(v, "( ", "(")
		v = strings.ReplaceAll(v, " )", ")")
		return v, j
	}
	j := 1
	for j < len(toks) && toks[j] == "(" {
		j++
		var name, val string
		name, j = readSexp(j)
		val, j = readSexp(j)
		if j < len(toks) && toks[j] == ")" {
			j++
		}
		m[name] = val
	}
	return m
}

// checkFunction discharges all obligations of an encoded function.
// dontCare: obligations recorded as not owned when the claims were made; they are not raced again (their phase-1
// answer is reported as is), which keeps the quick tier fast.
var dontCare = map[string]bool{}

func checkFunction(e *Enc, tier string, seed int, keepDir string) []*Result {
	quickMs, raceMs := 4000, 10000
	if tier == "thorough" {
		quickMs, raceMs = 10000, 60000
	}
	results := make([]*Result, len(e.obls))
	if len(e.obls) == 0 {
		return nil
	}
	if only := os.Getenv("GVC_ONLY"); only != "" {
		// debugging aid: decide only the obligations whose name contains one of the given substrings, standalone
		var wg sync.WaitGroup
		for i, o := range e.obls {
			want := "unsat"
			if o.Cover {
				want = "sat"
			}
			results[i] = &Result{Ob: o, Status: want, Solver: "skipped"}
			hit := false
			for _, sub := range strings.Split(only, ",") {
				if strings.Contains(o.Name, sub) {
					hit = true
				}
			}
			if !hit {
				continue
			}
			wg.Add(1)
			go func(i int) {
				defer wg.Done()
				results[i] = race(e, e.obls[i], raceMs, seed)
			}(i)
		}
		wg.Wait()
		return results
	}
	// phase 1: one incremental run
	inc := e.incrementalScript()
	out, secs := runIncremental(solvers[0], inc, quickMs, seed)
	answers := map[string]string{}
	cur := ""
	for _, l := range strings.Split(out, "\n") {
		l = strings.TrimSpace(l)
		if strings.HasPrefix(l, "@@ ") || strings.HasPrefix(l, "\"@@ ") {
			cur = strings.Trim(strings.TrimPrefix(strings.Trim(l, "\""), "@@ "), "\"")
			continue
		}
		if cur != "" && (l == "sat" || l == "unsat" || l == "unknown" || l == "timeout") {
			if _, dup := answers[cur]; !dup {
				answers[cur] = l
			}
		}
		if strings.HasPrefix(l, "(error") && cur == "" {
			fmt.Fprintf(os.Stderr, "solver error in %s: %s\n", e.topName(), l)
		}
	}
	if keepDir != "" {
		os.MkdirAll(keepDir, 0o755)
		os.WriteFile(filepath.Join(keepDir, mangle(e.topName())+".inc.smt2"), []byte(inc), 0o644)
		os.WriteFile(filepath.Join(keepDir, mangle(e.topName())+".inc.out"), []byte(out), 0o644)
	}
	per := secs / float64(len(e.obls))
	var redo []int
	for i, o := range e.obls {
		a := answers[o.Name]
		if len(o.Cases) > 0 {
			a = "unsat"
			o.caseSel = -1
			for k := range o.Cases {
				ak := answers[fmt.Sprintf("%s##%d", o.Name, k)]
				if ak != "unsat" {
					a = ak
					if a == "" {
						a = "unknown"
					}
					o.caseSel = k
					break
				}
			}
		}
		r := &Result{Ob: o, Status: a, Solver: solvers[0].Name + " (incremental)", Secs: per, Size: o.Prefix}
		results[i] = r
		want := "unsat"
		if o.Cover {
			want = "sat"
		}
		if a != want && !dontCare[o.Name] {
			redo = append(redo, i)
		}
		if a == "" {
			r.Status = "unknown"
		}
	}
	// phase 2: standalone race for everything not settled as wanted
	var wg sync.WaitGroup
	sem := make(chan struct{}, 4)
	for _, i := range redo {
		wg.Add(1)
		go func(i int) {
			defer wg.Done()
			sem <- struct{}{}
			defer func() { <-sem }()
			r := race(e, e.obls[i], raceMs, seed)
			want := "unsat"
			if e.obls[i].Cover {
				want = "sat"
			}
			if r.Status != want && r.Status != "sat" && r.Status != "unsat" {
				// undecided: one more attempt with another seed and three times the budget (solver time-outs under load
				// must not turn into alarms)
				r2 := race(e, e.obls[i], 3*raceMs, seed+7919)
				if r2.Status == "sat" || r2.Status == "unsat" {
					r = r2
				}
			}
			results[i] = r
		}(i)
	}
	wg.Wait()
	return results
}

func race(e *Enc, o *Obligation, ms, seed int) *Result {
	script := e.script(o, true)
	if d := os.Getenv("GVC_DUMP"); d != "" {
		// debugging aid: keep the standalone query of every raced obligation
		os.MkdirAll(d, 0o755)
		os.WriteFile(filepath.Join(d, mangle(o.Name)+".smt2"), []byte(script), 0o644)
	}
	ctx, cancel := context.WithCancel(context.Background())
	defer cancel()
	type ans struct {
		status, out, solver string
		secs                float64
	}
	ch := make(chan ans, len(solvers))
	useFP := strings.Contains(script, "F64")
	n := 0
	for _, s := range solvers {
		if useFP && strings.HasPrefix(s.Name, "cvc5") && strings.Contains(script, "15 113") {
			continue
		}
		n++
		go func(s SolverCfg) {
			sc := script
			if strings.HasPrefix(s.Name, "z3") {
				// z3 can report sat with a model it cannot validate (seen with floating point + arrays): such an
				// answer is not a counterexample
				sc = "(set-option :model_validate true)\n" + script
			}
			out, secs, _ := runSolver(ctx, s, sc, ms, seed)
			a := firstAnswer(out)
			if a == "sat" && strings.Contains(out, "invalid model") {
				a = "unknown"
			}
			ch <- ans{a, out, s.Name, secs}
		}(s)
	}
	best := &Result{Ob: o, Status: "unknown", Size: o.Prefix}
	var outs []string
	for k := 0; k < n; k++ {
		a := <-ch
		outs = append(outs, fmt.Sprintf("[%s %.2fs] %s", a.solver, a.secs, truncate(strings.TrimSpace(a.out), 600)))
		if a.status == "unsat" || a.status == "sat" {
			best.Status, best.Solver, best.Secs = a.status, a.solver, a.secs
			if a.status == "sat" {
				best.Model = parseValues(a.out)
			}
			cancel()
			break
		}
		if a.status == "timeout" && best.Status == "unknown" {
			best.Status = "timeout"
		}
		best.Solver = a.solver
		best.Secs = a.secs
	}
	best.Output = strings.Join(outs, "\n")
	return best
}

// runIncremental streams the incremental script's answers and stops the solver early when it keeps failing to decide
// (the remaining obligations then go to the parallel standalone race instead of waiting out one time-out each).
func runIncremental(cfg SolverCfg, script string, timeoutMs, seed int) (string, float64) {
	solverSlots <- struct{}{}
	defer func() { <-solverSlots }()
	args := cfg.Args(timeoutMs, seed)
	cmd := exec.Command(args[0], args[1:]...)
	cmd.Stdin = strings.NewReader(script)
	stdout, err := cmd.StdoutPipe()
	if err != nil {
		return "", 0
	}
	cmd.Stderr = nil
	t0 := time.Now()
	if err := cmd.Start(); err != nil {
		return "", 0
	}
	var sb strings.Builder
	undecided := 0
	sc := bufio.NewScanner(stdout)
	sc.Buffer(make([]byte, 1<<20), 1<<24)
	for sc.Scan() {
		l := sc.Text()
		sb.WriteString(l + "\n")
		t := strings.TrimSpace(l)
		switch t {
		case "sat", "unsat":
			undecided = 0
		case "unknown", "timeout":
			undecided++
		}
		if undecided >= 4 {
			cmd.Process.Kill()
			break
		}
	}
	cmd.Wait()
	return sb.String(), time.Since(t0).Seconds()
}
