package main

// Contract expression language: Go-like expressions extended with ==>, <==>,
// old(e), forall/exists k in [lo, hi): e, and calls to spec functions.

import (
	"fmt"
	"strconv"
	"strings"
	"unicode"
)

type CExpr interface{ String() string }

type (
	CLit   struct{ V string }          // integer literal (decimal), true, false, nil
	CStr   struct{ V string }          // string literal
	CIdent struct{ Name string }       // x, pkg.X handled as CSel on ident
	CSel   struct {                    // x.f
		X CExpr
		F string
	}
	CIndex struct{ X, I CExpr }        // x[i]
	CSlice struct{ X, Lo, Hi CExpr }   // x[lo:hi]  (either may be nil)
	CCall  struct {
		Fn   string
		Args []CExpr
	}
	CAssert struct { // x.(T)
		X CExpr
		T string
	}
	CType struct{ T string } // a type used as argument: is(x, T)
	CUn   struct {
		Op string
		X  CExpr
	}
	CBin struct {
		Op   string
		X, Y CExpr
	}
	CQuant struct {
		Forall bool
		Var    string
		VarT   string // "" (integer) or "string"
		Lo, Hi CExpr // range [Lo, Hi); nil Lo/Hi => unbounded Int
		Body   CExpr
	}
)

func (e *CLit) String() string   { return e.V }
func (e *CStr) String() string   { return fmt.Sprintf("%q", e.V) }
func (e *CIdent) String() string { return e.Name }
func (e *CSel) String() string   { return e.X.String() + "." + e.F }
func (e *CIndex) String() string { return e.X.String() + "[" + e.I.String() + "]" }
func (e *CSlice) String() string {
	s := e.X.String() + "["
	if e.Lo != nil {
		s += e.Lo.String()
	}
	s += ":"
	if e.Hi != nil {
		s += e.Hi.String()
	}
	return s + "]"
}
func (e *CCall) String() string {
	var a []string
	for _, x := range e.Args {
		a = append(a, x.String())
	}
	return e.Fn + "(" + strings.Join(a, ", ") + ")"
}
func (e *CAssert) String() string { return e.X.String() + ".(" + e.T + ")" }
func (e *CType) String() string   { return e.T }
func (e *CUn) String() string     { return e.Op + e.X.String() }
func (e *CBin) String() string    { return "(" + e.X.String() + " " + e.Op + " " + e.Y.String() + ")" }
func (e *CQuant) String() string {
	q := "exists"
	if e.Forall {
		q = "forall"
	}
	if e.Lo == nil {
		return fmt.Sprintf("(%s %s: %s)", q, e.Var, e.Body)
	}
	return fmt.Sprintf("(%s %s in [%s, %s): %s)", q, e.Var, e.Lo, e.Hi, e.Body)
}

// ---------------------------------------------------------------- lexer

type ctok struct {
	k string // "id", "num", "str", "op", "eof"
	s string
}

func clex(src string) ([]ctok, error) {
	var out []ctok
	i := 0
	ops := []string{"<==>", "==>", "&&", "||", "==", "!=", "<=", ">=", "<<", ">>", "&^",
		"+", "-", "*", "/", "%", "<", ">", "!", "(", ")", "[", "]", ",", ".", ":", "&", "|", "^", "?"}
	for i < len(src) {
		c := rune(src[i])
		switch {
		case c == ' ' || c == '\t':
			i++
		case unicode.IsLetter(c) || c == '_' || c == '$':
			j := i
			for j < len(src) && (unicode.IsLetter(rune(src[j])) || unicode.IsDigit(rune(src[j])) || src[j] == '_' || src[j] == '$') {
				j++
			}
			out = append(out, ctok{"id", src[i:j]})
			i = j
		case unicode.IsDigit(c):
			j := i
			for j < len(src) && (unicode.IsDigit(rune(src[j])) || src[j] == 'x' || (src[j] >= 'a' && src[j] <= 'f') || (src[j] >= 'A' && src[j] <= 'F') || src[j] == '_') {
				j++
			}
			out = append(out, ctok{"num", strings.ReplaceAll(src[i:j], "_", "")})
			i = j
		case c == '"':
			j := i + 1
			for j < len(src) && src[j] != '"' {
				if src[j] == '\\' {
					j++
				}
				j++
			}
			if j >= len(src) {
				return nil, fmt.Errorf("unterminated string in %q", src)
			}
			lit := src[i+1 : j]
			if u, err := strconv.Unquote("\"" + lit + "\""); err == nil {
				lit = u
			}
			out = append(out, ctok{"str", lit})
			i = j + 1
		default:
			matched := false
			for _, op := range ops {
				if strings.HasPrefix(src[i:], op) {
					out = append(out, ctok{"op", op})
					i += len(op)
					matched = true
					break
				}
			}
			if !matched {
				return nil, fmt.Errorf("bad character %q in %q", c, src)
			}
		}
	}
	out = append(out, ctok{"eof", ""})
	return out, nil
}

// ---------------------------------------------------------------- parser

type cparser struct {
	toks []ctok
	p    int
	src  string
}

func ParseCExpr(src string) (e CExpr, err error) {
	toks, err := clex(src)
	if err != nil {
		return nil, err
	}
	ps := &cparser{toks: toks, src: src}
	defer func() {
		if r := recover(); r != nil {
			if s, ok := r.(cperr); ok {
				err = fmt.Errorf("%s in %q", string(s), src)
				return
			}
			panic(r)
		}
	}()
	e = ps.expr(0)
	if ps.peek().k != "eof" {
		ps.fail("trailing tokens at %q", ps.peek().s)
	}
	return e, nil
}

type cperr string

func (ps *cparser) fail(f string, a ...interface{}) { panic(cperr(fmt.Sprintf(f, a...))) }
func (ps *cparser) peek() ctok                      { return ps.toks[ps.p] }
func (ps *cparser) next() ctok                      { t := ps.toks[ps.p]; ps.p++; return t }
func (ps *cparser) isOp(s string) bool              { t := ps.peek(); return t.k == "op" && t.s == s }
func (ps *cparser) expect(s string) {
	if !ps.isOp(s) {
		ps.fail("expected %q, got %q", s, ps.peek().s)
	}
	ps.p++
}

var cprec = map[string]int{
	"<==>": 1, "==>": 2, "||": 3, "&&": 4,
	"==": 5, "!=": 5, "<": 5, "<=": 5, ">": 5, ">=": 5,
	"+": 6, "-": 6, "|": 6, "^": 6,
	"*": 7, "/": 7, "%": 7, "<<": 7, ">>": 7, "&": 7, "&^": 7,
}

func (ps *cparser) expr(minPrec int) CExpr {
	lhs := ps.unary()
	for {
		t := ps.peek()
		if t.k != "op" {
			return lhs
		}
		pr, ok := cprec[t.s]
		if !ok || pr < minPrec {
			return lhs
		}
		ps.p++
		var rhs CExpr
		if t.s == "==>" || t.s == "<==>" {
			rhs = ps.expr(pr) // right assoc
		} else {
			rhs = ps.expr(pr + 1)
		}
		// chained comparison a <= b < c
		lhs = &CBin{t.s, lhs, rhs}
	}
}

func (ps *cparser) unary() CExpr {
	if ps.isOp("!") || ps.isOp("-") {
		op := ps.next().s
		return &CUn{op, ps.unary()}
	}
	return ps.postfix(ps.primary())
}

func (ps *cparser) typeName() string {
	// [*]ident(.ident)* or []T
	s := ""
	for ps.isOp("*") || ps.isOp("[") {
		if ps.isOp("[") {
			ps.p++
			ps.expect("]")
			s += "[]"
		} else {
			ps.p++
			s += "*"
		}
	}
	t := ps.next()
	if t.k != "id" {
		ps.fail("type name expected, got %q", t.s)
	}
	s += t.s
	for ps.isOp(".") || ps.isOp("/") {
		s += ps.next().s
		t := ps.next()
		if t.k != "id" {
			ps.fail("type name expected")
		}
		s += t.s
	}
	return s
}

func (ps *cparser) primary() CExpr {
	t := ps.next()
	switch t.k {
	case "num":
		return &CLit{t.s}
	case "str":
		return &CStr{t.s}
	case "id":
		switch t.s {
		case "true", "false", "nil":
			return &CLit{t.s}
		case "forall", "exists":
			v := ps.next()
			if v.k != "id" {
				ps.fail("quantifier variable expected")
			}
			q := &CQuant{Forall: t.s == "forall", Var: v.s}
			if ps.peek().k == "id" && ps.peek().s == "string" {
				ps.p++
				q.VarT = "string"
			}
			if ps.peek().k == "id" && ps.peek().s == "in" {
				ps.p++
				ps.expect("[")
				q.Lo = ps.expr(0)
				ps.expect(",")
				q.Hi = ps.expr(0)
				ps.expect(")")
			}
			ps.expect(":")
			q.Body = ps.expr(0)
			return q
		case "is":
			// is(x, T)
			ps.expect("(")
			x := ps.expr(0)
			ps.expect(",")
			tn := ps.typeName()
			ps.expect(")")
			return &CCall{"is", []CExpr{x, &CType{tn}}}
		}
		if ps.isOp("(") {
			ps.p++
			var args []CExpr
			for !ps.isOp(")") {
				args = append(args, ps.expr(0))
				if ps.isOp(",") {
					ps.p++
				}
			}
			ps.expect(")")
			return &CCall{t.s, args}
		}
		return &CIdent{t.s}
	case "op":
		if t.s == "(" {
			e := ps.expr(0)
			ps.expect(")")
			return e
		}
	}
	ps.fail("unexpected token %q", t.s)
	return nil
}

func (ps *cparser) postfix(e CExpr) CExpr {
	for {
		switch {
		case ps.isOp("."):
			ps.p++
			if ps.isOp("(") {
				ps.p++
				tn := ps.typeName()
				ps.expect(")")
				e = &CAssert{e, tn}
				continue
			}
			t := ps.next()
			if t.k != "id" {
				ps.fail("field name expected")
			}
			// pkg.Func(...) call
			if id, ok := e.(*CIdent); ok && ps.isOp("(") {
				ps.p++
				var args []CExpr
				for !ps.isOp(")") {
					args = append(args, ps.expr(0))
					if ps.isOp(",") {
						ps.p++
					}
				}
				ps.expect(")")
				e = &CCall{id.Name + "." + t.s, args}
				continue
			}
			e = &CSel{e, t.s}
		case ps.isOp("["):
			ps.p++
			var lo, hi CExpr
			if !ps.isOp(":") {
				lo = ps.expr(0)
			}
			if ps.isOp(":") {
				ps.p++
				if !ps.isOp("]") {
					hi = ps.expr(0)
				}
				ps.expect("]")
				e = &CSlice{e, lo, hi}
			} else {
				ps.expect("]")
				e = &CIndex{e, lo}
			}
		default:
			return e
		}
	}
}
