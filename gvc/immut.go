package main

import (
	"fmt"
	"go/types"
	"sort"
	"strings"

	"golang.org/x/tools/go/ssa"
	"golang.org/x/tools/go/ssa/ssautil"
)

// checkImmutable discharges the "immutable" declarations syntactically over the SSA of every function of the module:
// a declared field is stored to only through an object allocated in the same function (construction), and a ghost that
// abstracts a library value (bigval) is changed only through receivers that are fresh in the calling function.
func checkImmutable(w *World) []*Result {
	var out []*Result
	for _, d := range w.CS.Immutable {
		name := "frame:immutable:" + strings.ReplaceAll(d.Spec, " ", ":")
		ob := &Obligation{Name: name, Kind: "frame", caseSel: -1}
		var bad []string
		if strings.HasPrefix(d.Spec, "ghost ") {
			g := strings.TrimSpace(strings.TrimPrefix(d.Spec, "ghost "))
			bad = scanGhostWrites(w, g)
		} else {
			bad = scanFieldWrites(w, d)
		}
		r := &Result{Ob: ob, Status: "unsat", Solver: "ssa-scan"}
		if len(bad) > 0 {
			sort.Strings(bad)
			r.Status = "sat"
			r.Output = "writes outside construction: " + strings.Join(bad, "; ")
		}
		out = append(out, r)
	}
	return out
}

func freshInFunc(v ssa.Value, depth int) bool {
	if depth > 6 {
		return false
	}
	switch x := v.(type) {
	case *ssa.Alloc:
		return true
	case *ssa.ChangeType:
		return freshInFunc(x.X, depth+1)
	case *ssa.Call:
		cc := x.Common()
		if callee := cc.StaticCallee(); callee != nil {
			n := callee.String()
			if n == "math/big.NewInt" {
				return true
			}
			// big.Int methods return their receiver
			if strings.HasPrefix(n, "(*math/big.Int).") && len(cc.Args) > 0 {
				return freshInFunc(cc.Args[0], depth+1)
			}
		}
	case *ssa.Extract:
		if c, ok := x.Tuple.(*ssa.Call); ok && x.Index == 0 {
			return freshInFunc(c, depth+1)
		}
	case *ssa.Phi:
		for _, e := range x.Edges {
			if !freshInFunc(e, depth+1) {
				return false
			}
		}
		return true
	}
	return false
}

func scanFieldWrites(w *World, d ImmutDecl) []string {
	i := strings.LastIndex(d.Spec, ".")
	t, err := w.lookupType(d.Spec[:i], d.Pkg)
	if err != nil {
		return []string{err.Error()}
	}
	field := d.Spec[i+1:]
	var bad []string
	for fn := range ssautil.AllFunctions(w.Prog) {
		if fn.Pkg == nil && fn.Parent() == nil {
			continue
		}
		if !strings.HasPrefix(pkgPathOf(fn), repoModule) {
			continue
		}
		for _, b := range fn.Blocks {
			for _, ins := range b.Instrs {
				st, ok := ins.(*ssa.Store)
				if !ok {
					continue
				}
				fa, ok := st.Addr.(*ssa.FieldAddr)
				if !ok {
					continue
				}
				pt := fa.X.Type().Underlying().(*types.Pointer).Elem()
				if !types.Identical(pt, t) {
					continue
				}
				if pt.Underlying().(*types.Struct).Field(fa.Field).Name() != field {
					continue
				}
				if !freshInFunc(fa.X, 0) {
					bad = append(bad, fmt.Sprintf("%s (%s)", shortFuncName(fn.String()), w.Prog.Fset.Position(st.Pos())))
				}
			}
		}
	}
	return bad
}

// scanGhostWrites: calls to externs whose contract modifies ghost[z] must pass a receiver that is fresh in the caller.
func scanGhostWrites(w *World, ghost string) []string {
	var bad []string
	for fn := range ssautil.AllFunctions(w.Prog) {
		if !strings.HasPrefix(pkgPathOf(fn), repoModule) {
			continue
		}
		for _, b := range fn.Blocks {
			for _, ins := range b.Instrs {
				ci, ok := ins.(ssa.CallInstruction)
				if !ok {
					continue
				}
				cc := ci.Common()
				callee := cc.StaticCallee()
				if callee == nil {
					continue
				}
				c := w.CS.Funcs[callee.String()]
				if c == nil || !c.Extern {
					continue
				}
				for _, m := range c.Modifies {
					ix, ok := m.(*CIndex)
					if !ok {
						continue
					}
					id, ok := ix.X.(*CIdent)
					if !ok || id.Name != ghost {
						continue
					}
					pn, ok := ix.I.(*CIdent)
					if !ok {
						bad = append(bad, "unanalysable modifies target in "+callee.String())
						continue
					}
					for k, p := range c.Params {
						if p == pn.Name && k < len(cc.Args) {
							if !freshInFunc(cc.Args[k], 0) {
								bad = append(bad, fmt.Sprintf("%s passes a non-fresh %s to %s (%s)", shortFuncName(fn.String()), p, shortFuncName(callee.String()), w.Prog.Fset.Position(ins.Pos())))
							}
						}
					}
				}
			}
		}
	}
	return bad
}
