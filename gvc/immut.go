package main

import (
	"go/token"
	"fmt"
	"go/types"
	"sort"
	"strings"

	"golang.org/x/tools/go/ssa"
	"golang.org/x/tools/go/ssa/ssautil"
)

// checkImmutable discharges the "immutable" declarations syntactically over the SSA of every function of the module:
// a declared field is stored to only through an object allocated in the same function (construction), and a ghost that
// abstracts a library value (bigval) is changed only through receivers that are fresh in the calling function.
func checkImmutable(w *World) []*Result {
	var out []*Result
	for _, d := range w.CS.Immutable {
		name := "frame:immutable:" + strings.ReplaceAll(d.Spec, " ", ":")
		ob := &Obligation{Name: name, Kind: "frame", caseSel: -1}
		var bad []string
		if strings.HasPrefix(d.Spec, "ghost ") {
			g := strings.TrimSpace(strings.TrimPrefix(d.Spec, "ghost "))
			bad = scanGhostWrites(w, g)
		} else {
			bad = scanFieldWrites(w, d)
		}
		r := &Result{Ob: ob, Status: "unsat", Solver: "ssa-scan"}
		if len(bad) > 0 {
			sort.Strings(bad)
			r.Status = "sat"
			r.Output = "writes outside construction: " + strings.Join(bad, "; ")
		}
		out = append(out, r)
	}
	return out
}

func freshInFunc(v ssa.Value, depth int) bool {
	if depth > 6 {
		return false
	}
	switch x := v.(type) {
	case *ssa.Alloc:
		return true
	case *ssa.ChangeType:
		return freshInFunc(x.X, depth+1)
	case *ssa.Call:
		cc := x.Common()
		if callee := cc.StaticCallee(); callee != nil {
			n := callee.String()
			if n == "math/big.NewInt" {
				return true
			}
			// big.Int methods return their receiver
			if strings.HasPrefix(n, "(*math/big.Int).") && len(cc.Args) > 0 {
				return freshInFunc(cc.Args[0], depth+1)
			}
		}
	case *ssa.Extract:
		if c, ok := x.Tuple.(*ssa.Call); ok && x.Index == 0 {
			return freshInFunc(c, depth+1)
		}
	case *ssa.Phi:
		for _, e := range x.Edges {
			if !freshInFunc(e, depth+1) {
				return false
			}
		}
		return true
	}
	return false
}

func scanFieldWrites(w *World, d ImmutDecl) []string {
	i := strings.LastIndex(d.Spec, ".")
	t, err := w.lookupType(d.Spec[:i], d.Pkg)
	if err != nil {
		return []string{err.Error()}
	}
	field := d.Spec[i+1:]
	var bad []string
	for fn := range ssautil.AllFunctions(w.Prog) {
		if fn.Pkg == nil && fn.Parent() == nil {
			continue
		}
		if !strings.HasPrefix(pkgPathOf(fn), repoModule) {
			continue
		}
		for _, b := range fn.Blocks {
			for _, ins := range b.Instrs {
				st, ok := ins.(*ssa.Store)
				if !ok {
					continue
				}
				fa, ok := st.Addr.(*ssa.FieldAddr)
				if !ok {
					continue
				}
				pt := fa.X.Type().Underlying().(*types.Pointer).Elem()
				if !types.Identical(pt, t) {
					continue
				}
				if pt.Underlying().(*types.Struct).Field(fa.Field).Name() != field {
					continue
				}
				if !freshInFunc(fa.X, 0) {
					bad = append(bad, fmt.Sprintf("%s (%s)", shortFuncName(fn.String()), w.Prog.Fset.Position(st.Pos())))
				}
			}
		}
	}
	return bad
}

// scanGhostWrites: calls to externs whose contract modifies ghost[z] must pass a receiver that is fresh in the caller.
func scanGhostWrites(w *World, ghost string) []string {
	var bad []string
	for fn := range ssautil.AllFunctions(w.Prog) {
		if !strings.HasPrefix(pkgPathOf(fn), repoModule) {
			continue
		}
		for _, b := range fn.Blocks {
			for _, ins := range b.Instrs {
				ci, ok := ins.(ssa.CallInstruction)
				if !ok {
					continue
				}
				cc := ci.Common()
				callee := cc.StaticCallee()
				if callee == nil {
					continue
				}
				c := w.CS.Funcs[callee.String()]
				if c == nil || !c.Extern {
					continue
				}
				for _, m := range c.Modifies {
					ix, ok := m.(*CIndex)
					if !ok {
						continue
					}
					id, ok := ix.X.(*CIdent)
					if !ok || id.Name != ghost {
						continue
					}
					pn, ok := ix.I.(*CIdent)
					if !ok {
						bad = append(bad, "unanalysable modifies target in "+callee.String())
						continue
					}
					for k, p := range c.Params {
						if p == pn.Name && k < len(cc.Args) {
							if !freshInFunc(cc.Args[k], 0) {
								bad = append(bad, fmt.Sprintf("%s passes a non-fresh %s to %s (%s)", shortFuncName(fn.String()), p, shortFuncName(callee.String()), w.Prog.Fset.Position(ins.Pos())))
							}
						}
					}
				}
			}
		}
	}
	return bad
}

// checkDeterminism (C18): a Go function of its inputs can differ between runs only through map iteration order,
// goroutines/select, time/rand, or writes to package-level state.  For the packages of the compile pipeline every
// such source must be absent, or - for a range over a map - carry an order-independence argument:
//   (a) the loop has per-key invariants over visited() in a contract under proof, or
//   (b) the loop only appends to a slice that is passed to sort.Strings before the function returns.
func checkDeterminism(w *World, pkgs []string) []*Result {
	var out []*Result
	mk := func(name string, bad []string) {
		ob := &Obligation{Name: name, Kind: "frame", caseSel: -1}
		r := &Result{Ob: ob, Status: "unsat", Solver: "ssa-scan"}
		if len(bad) > 0 {
			sort.Strings(bad)
			r.Status = "sat"
			r.Output = strings.Join(bad, "; ")
		}
		out = append(out, r)
	}
	inPkgs := func(fn *ssa.Function) bool {
		p := pkgPathOf(fn)
		for _, q := range pkgs {
			if p == repoModule+"/"+q {
				return true
			}
		}
		return false
	}
	var fns []*ssa.Function
	for fn := range ssautil.AllFunctions(w.Prog) {
		if inPkgs(fn) && fn.Blocks != nil {
			fns = append(fns, fn)
		}
	}
	sort.Slice(fns, func(i, j int) bool { return fns[i].String() < fns[j].String() })
	var badRange, badConc, badTime, badGlob []string
	nRange := 0
	for _, fn := range fns {
		isInit := fn.Name() == "init" || strings.HasPrefix(fn.Name(), "init#")
		live := liveBlocks(fn)
		for _, b := range fn.Blocks {
			if !live[b] {
				continue
			}
			for _, ins := range b.Instrs {
				switch x := ins.(type) {
				case *ssa.Range:
					if _, isMap := x.X.Type().Underlying().(*types.Map); isMap {
						nRange++
						if isInit {
							continue // init-time construction of package tables runs once before any compilation (not analysed)
						}
						if !rangeOrderFree(w, fn, x) {
							badRange = append(badRange, fmt.Sprintf("%s (%s)", shortFuncName(fn.String()), w.Prog.Fset.Position(x.Pos())))
						}
					}
				case *ssa.Go, *ssa.Select:
					badConc = append(badConc, shortFuncName(fn.String()))
				case ssa.CallInstruction:
					if callee := x.Common().StaticCallee(); callee != nil && callee.Pkg != nil {
						switch callee.Pkg.Pkg.Path() {
						case "time", "math/rand", "crypto/rand":
							badTime = append(badTime, shortFuncName(fn.String())+" calls "+callee.String())
						}
					}
				case *ssa.Store:
					if g, ok := x.Addr.(*ssa.Global); ok && !isInit && !globalWriteAllowed(w, g) {
						badGlob = append(badGlob, fmt.Sprintf("%s writes %s", shortFuncName(fn.String()), shortFuncName(g.String())))
					}
				}
				g := globalMutation(ins)
				if g == nil {
					g = globalArgMutation(w, ins)
				}
				if g != nil && !isInit && strings.HasPrefix(g.Pkg.Pkg.Path(), repoModule) && !globalWriteAllowed(w, g) {
					badGlob = append(badGlob, fmt.Sprintf("%s mutates %s in place", shortFuncName(fn.String()), shortFuncName(g.String())))
				}
			}
		}
	}
	mk("frame:determinism:map-ranges", badRange)
	mk("frame:determinism:no-goroutines", badConc)
	mk("frame:determinism:no-time-rand", badTime)
	mk("frame:determinism:no-global-writes", badGlob)
	out[0].Output += fmt.Sprintf(" (%d map ranges examined)", nRange)
	return out
}

func rangeOrderFree(w *World, fn *ssa.Function, rng *ssa.Range) bool {
	// (a) contract with per-key invariants on some loop of the function
	if c := w.CS.Funcs[fn.String()]; c != nil {
		for _, ls := range c.Loops {
			for _, inv := range ls.Invs {
				if strings.Contains(inv.Src, "visited(") {
					return true
				}
			}
		}
	}
	// (b) collect-then-sort
	var appended ssa.Value
	sorted := false
	for _, b := range fn.Blocks {
		for _, ins := range b.Instrs {
			call, ok := ins.(*ssa.Call)
			if !ok {
				continue
			}
			if bi, ok := call.Common().Value.(*ssa.Builtin); ok && bi.Name() == "append" {
				appended = call.Common().Args[0]
			}
			if callee := call.Common().StaticCallee(); callee != nil && (callee.String() == "sort.Strings" || callee.String() == "sort.Sort" || callee.String() == "sort.Stable") {
				// the slice that is sorted must be the one that is returned
				for _, b2 := range fn.Blocks {
					for _, i2 := range b2.Instrs {
						if ret, ok := i2.(*ssa.Return); ok {
							for _, rv := range ret.Results {
								if rv == call.Common().Args[0] {
									sorted = true
								}
							}
						}
					}
				}
			}
			_ = appended
		}
	}
	if sorted {
		// every store in the function must be an append result flowing to the sorted slice: no MapUpdate, no field stores
		for _, b := range fn.Blocks {
			for _, ins := range b.Instrs {
				switch ins.(type) {
				case *ssa.MapUpdate:
					return false
				case *ssa.Store:
					switch a := ins.(*ssa.Store).Addr.(type) {
					case *ssa.FieldAddr:
						if _, local := a.X.(*ssa.Alloc); !local {
							return false
						}
					case *ssa.IndexAddr:
						if _, local := a.X.(*ssa.Alloc); !local {
							return false
						}
					case *ssa.Global:
						return false
					}
				}
			}
		}
		return true
	}
	return false
}

// globalRoot: the package-level variable a value or address is derived from without leaving the variable's own
// storage: the variable's address, a field/element address inside it, or the map / pointer / slice it holds.
func globalRoot(v ssa.Value, depth int) *ssa.Global {
	if depth > 8 {
		return nil
	}
	switch x := v.(type) {
	case *ssa.Global:
		return x
	case *ssa.UnOp:
		if x.Op == token.MUL {
			if g, ok := x.X.(*ssa.Global); ok {
				return g
			}
			return globalRoot(x.X, depth+1)
		}
	case *ssa.FieldAddr:
		return globalRoot(x.X, depth+1)
	case *ssa.IndexAddr:
		return globalRoot(x.X, depth+1)
	case *ssa.Slice:
		return globalRoot(x.X, depth+1)
	case *ssa.ChangeType:
		return globalRoot(x.X, depth+1)
	}
	return nil
}

// globalMutation: does the instruction change storage reachable from a package-level variable in place (a store
// through it, a map update, or a method call on the variable's own address)?  Returns the variable.
func globalMutation(ins ssa.Instruction) *ssa.Global {
	switch x := ins.(type) {
	case *ssa.Store:
		if _, direct := x.Addr.(*ssa.Global); direct {
			return nil // plain assignment of the variable: handled by the store scan
		}
		return globalRoot(x.Addr, 0)
	case *ssa.MapUpdate:
		return globalRoot(x.Map, 0)
	case ssa.CallInstruction:
		cc := x.Common()
		if cc.IsInvoke() || len(cc.Args) == 0 {
			return nil
		}
		if callee := cc.StaticCallee(); callee != nil && callee.Signature.Recv() != nil {
			if _, isPtr := callee.Signature.Recv().Type().(*types.Pointer); isPtr {
				switch r := cc.Args[0].(type) {
				case *ssa.Global:
					return r
				case *ssa.FieldAddr, *ssa.IndexAddr:
					if g := globalRoot(r, 0); g != nil {
						// a method on a part of the variable's own storage (not on a pointer it holds)
						if _, viaLoad := rootIsLoad(r); !viaLoad {
							return g
						}
					}
				}
			}
		}
	}
	return nil
}

// paramRoot: like globalRoot, for a parameter of the enclosing function.
func paramRoot(v ssa.Value, depth int) *ssa.Parameter {
	if depth > 8 {
		return nil
	}
	switch x := v.(type) {
	case *ssa.Parameter:
		return x
	case *ssa.UnOp:
		if x.Op == token.MUL {
			return paramRoot(x.X, depth+1)
		}
	case *ssa.FieldAddr:
		return paramRoot(x.X, depth+1)
	case *ssa.IndexAddr:
		return paramRoot(x.X, depth+1)
	case *ssa.Slice:
		return paramRoot(x.X, depth+1)
	case *ssa.ChangeType:
		return paramRoot(x.X, depth+1)
	}
	return nil
}

// mutatedParams: for every function of the repository, the parameters whose referent (map, pointer target, slice
// backing array) the function changes, directly or by handing it to a function that does (least fixpoint).
func mutatedParams(w *World) map[*ssa.Function]map[int]bool {
	if w.mutParams != nil {
		return w.mutParams
	}
	res := map[*ssa.Function]map[int]bool{}
	var fns []*ssa.Function
	for fn := range ssautil.AllFunctions(w.Prog) {
		if strings.HasPrefix(pkgPathOf(fn), repoModule) && fn.Blocks != nil {
			fns = append(fns, fn)
		}
	}
	idx := func(fn *ssa.Function, p *ssa.Parameter) int {
		for i, q := range fn.Params {
			if q == p {
				return i
			}
		}
		return -1
	}
	mark := func(fn *ssa.Function, i int) bool {
		if i < 0 {
			return false
		}
		if res[fn] == nil {
			res[fn] = map[int]bool{}
		}
		if res[fn][i] {
			return false
		}
		res[fn][i] = true
		return true
	}
	changed := true
	for changed {
		changed = false
		for _, fn := range fns {
			for _, b := range fn.Blocks {
				for _, ins := range b.Instrs {
					switch x := ins.(type) {
					case *ssa.Store:
						if p := paramRoot(x.Addr, 0); p != nil && mark(fn, idx(fn, p)) {
							changed = true
						}
					case *ssa.MapUpdate:
						if p := paramRoot(x.Map, 0); p != nil && mark(fn, idx(fn, p)) {
							changed = true
						}
					case ssa.CallInstruction:
						cc := x.Common()
						callee := cc.StaticCallee()
						if callee == nil || cc.IsInvoke() {
							continue
						}
						for j, a := range cc.Args {
							if res[callee][j] {
								if p := paramRoot(a, 0); p != nil && mark(fn, idx(fn, p)) {
									changed = true
								}
							}
						}
						if b, isB := cc.Value.(*ssa.Builtin); isB && (b.Name() == "delete" || b.Name() == "copy") && len(cc.Args) > 0 {
							if p := paramRoot(cc.Args[0], 0); p != nil && mark(fn, idx(fn, p)) {
								changed = true
							}
						}
					}
				}
			}
		}
	}
	w.mutParams = res
	return res
}

// globalArgMutation: a package-level variable's map / pointer / slice (or its address) handed to a function that
// changes that argument's referent.
func globalArgMutation(w *World, ins ssa.Instruction) *ssa.Global {
	x, ok := ins.(ssa.CallInstruction)
	if !ok {
		return nil
	}
	cc := x.Common()
	if b, isB := cc.Value.(*ssa.Builtin); isB && (b.Name() == "delete" || b.Name() == "copy") && len(cc.Args) > 0 {
		return globalRoot(cc.Args[0], 0)
	}
	callee := cc.StaticCallee()
	if callee == nil || cc.IsInvoke() {
		return nil
	}
	mp := mutatedParams(w)[callee]
	for j, a := range cc.Args {
		if mp[j] {
			if g := globalRoot(a, 0); g != nil {
				return g
			}
		}
	}
	return nil
}

func rootIsLoad(v ssa.Value) (ssa.Value, bool) {
	for i := 0; i < 8; i++ {
		switch x := v.(type) {
		case *ssa.FieldAddr:
			v = x.X
		case *ssa.IndexAddr:
			v = x.X
		case *ssa.UnOp:
			return x, true
		default:
			return v, false
		}
	}
	return v, false
}

func globalWriteAllowed(w *World, g *ssa.Global) bool {
	for _, d := range w.CS.AllowGlobalWrite {
		if g.Pkg != nil && g.Pkg.Pkg.Path() == d.Pkg && g.Name() == d.Spec {
			return true
		}
	}
	return false
}

// checkIsolation (C08): package-level state is what contexts could share.  Every store to a package-level variable
// outside init in the interpreter's packages must be declared (allow-global-write, with the reason in the contract
// file) - a new unsynchronised package-level variable written at run time fails the obligation.
func checkIsolation(w *World) []*Result {
	var bad []string
	n := 0
	var fns []*ssa.Function
	for fn := range ssautil.AllFunctions(w.Prog) {
		if strings.HasPrefix(pkgPathOf(fn), repoModule) && fn.Blocks != nil {
			fns = append(fns, fn)
		}
	}
	sort.Slice(fns, func(i, j int) bool { return fns[i].String() < fns[j].String() })
	for _, fn := range fns {
		top := fn
		for top.Parent() != nil {
			top = top.Parent()
		}
		if top.Name() == "init" || strings.HasPrefix(top.Name(), "init#") {
			continue
		}
		for _, b := range fn.Blocks {
			for _, ins := range b.Instrs {
				gm := globalMutation(ins)
				if gm == nil {
					gm = globalArgMutation(w, ins)
				}
				if g := gm; g != nil && strings.HasPrefix(g.Pkg.Pkg.Path(), repoModule) {
					n++
					if !globalWriteAllowed(w, g) {
						bad = append(bad, fmt.Sprintf("%s writes %s", shortFuncName(fn.String()), shortFuncName(g.String())))
					}
					continue
				}
				st, ok := ins.(*ssa.Store)
				if !ok {
					continue
				}
				g, ok := st.Addr.(*ssa.Global)
				if !ok {
					continue
				}
				n++
				if !globalWriteAllowed(w, g) {
					bad = append(bad, fmt.Sprintf("%s writes %s", shortFuncName(fn.String()), shortFuncName(g.String())))
				}
			}
		}
	}
	ob := &Obligation{Name: "frame:isolation:scan", Kind: "frame", caseSel: -1}
	out := []*Result{{Ob: ob, Status: "unsat", Solver: "ssa-scan", Output: fmt.Sprintf("%d stores to package-level variables outside init examined", n)}}
	// one obligation per undeclared variable, so that a recorded finding does not hide a new one
	byVar := map[string][]string{}
	for _, b := range bad {
		parts := strings.SplitN(b, " writes ", 2)
		byVar[parts[1]] = append(byVar[parts[1]], parts[0])
	}
	var vars []string
	for v := range byVar {
		vars = append(vars, v)
	}
	sort.Strings(vars)
	for _, v := range vars {
		o := &Obligation{Name: "frame:isolation:global:" + v, Kind: "frame", caseSel: -1}
		out = append(out, &Result{Ob: o, Status: "sat", Solver: "ssa-scan", Output: "written outside init by " + strings.Join(byVar[v], ", ")})
	}
	return out
}
