package main

// Must-fail self-test: every patch in /verif/selftest/mutants/*.patch is applied to a scratch copy of /repo,
// the owning check is run against the copy and must fail naming the expected obligation.

import (
	"bytes"
	"sync"
	"fmt"
	"os"
	"os/exec"
	"path/filepath"
	"sort"
	"strings"
)

func runSelftest(repo, verif string, args []string) int {
	pats, _ := filepath.Glob(filepath.Join(verif, "selftest", "mutants", "*.patch"))
	pats2, _ := filepath.Glob(filepath.Join(verif, "seeded", "*", "patch.diff"))
	pats = append(pats, pats2...)
	sort.Strings(pats)
	only := map[string]bool{}
	for _, a := range args {
		only[a] = true
	}
	scratchRoot := "/root/gvc-scratch"
	os.MkdirAll(scratchRoot, 0o755)
	failed := 0
	self, _ := os.Executable()
	var mu sync.Mutex
	var wg sync.WaitGroup
	sem := make(chan struct{}, 2)
	for _, p := range pats {
		p := p
		wg.Add(1)
		go func() {
			defer wg.Done()
			sem <- struct{}{}
			defer func() { <-sem }()
			if !runOneMutant(p, only, scratchRoot, repo, verif, self) {
				mu.Lock()
				failed++
				mu.Unlock()
			}
		}()
	}
	wg.Wait()
	os.RemoveAll(scratchRoot)
	if failed > 0 {
		fmt.Printf("selftest: %d mutants not caught\n", failed)
		return 1
	}
	fmt.Println("selftest: all mutants caught")
	return 0
}

func runOneMutant(p string, only map[string]bool, scratchRoot, repo, verif, self string) bool {
	failed := 0
	for once := true; once; once = false {
		name := strings.TrimSuffix(filepath.Base(p), ".patch")
		if filepath.Base(p) == "patch.diff" {
			name = filepath.Base(filepath.Dir(p))
		}
		if len(only) > 0 && !only[name] {
			return true
		}
		data, _ := os.ReadFile(p)
		prop, expect := "", ""
		metaFile := filepath.Join(filepath.Dir(p), "meta.json")
		if filepath.Base(p) == "patch.diff" {
			if md, err := os.ReadFile(metaFile); err == nil {
				prop = jsonField(string(md), "property")
				expect = jsonField(string(md), "expect_obligation")
				// the check that detects the change when it is not the property the change was written against
				// ("none": recorded as not detected by any check, see meta.json "missed")
				if sc := jsonField(string(md), "selftest_checks"); sc != "" {
					prop = sc
				}
			}
		}
		for _, l := range strings.Split(string(data), "\n") {
			if strings.HasPrefix(l, "# property:") {
				prop = strings.TrimSpace(strings.TrimPrefix(l, "# property:"))
			}
			if strings.HasPrefix(l, "# expect:") {
				expect = strings.TrimSpace(strings.TrimPrefix(l, "# expect:"))
			}
		}
		if prop == "" {
			fmt.Printf("SKIP %s: no property header\n", name)
			continue
		}
		if prop == "none" {
			fmt.Printf("SKIP %s: recorded as not detected (meta.json)\n", name)
			continue
		}
		dir := filepath.Join(scratchRoot, "m-"+name)
		os.RemoveAll(dir)
		if out, err := exec.Command("bash", "-c", fmt.Sprintf("mkdir -p %q && rsync -a --exclude .git %q/ %q/ && cd %q && patch -p1 -s < %q", dir, repo, dir, dir, p)).CombinedOutput(); err != nil {
			fmt.Printf("FAIL %s: patch does not apply: %s\n", name, out)
			failed++
			os.RemoveAll(dir)
			continue
		}
		var buf bytes.Buffer
		okAll := true
		for _, pr := range strings.Fields(strings.ReplaceAll(prop, ",", " ")) {
			cmd := exec.Command(self, "-repo", dir, "-verif", verif, "-noevidence", "check", pr, "quick")
			cmd.Stdout, cmd.Stderr = &buf, &buf
			err := cmd.Run()
			out := buf.String()
			caught := err != nil && strings.Contains(out, "VIOLATION property="+pr)
			named := expect == "" || strings.Contains(out, expect)
			if expect == "" && caught {
				// without a named obligation only definitive failures count (a time-out under load is not a detection)
				definitive := false
				for _, l := range strings.Split(out, "\n") {
					if strings.Contains(l, "failed obligation:") && !strings.Contains(l, "answered unknown") && !strings.Contains(l, "answered timeout") {
						definitive = true
					}
				}
				caught = definitive
			}
			if caught && named {
				fmt.Printf("ok   %s: %s fails", name, pr)
				if expect != "" {
					fmt.Printf(" naming %s", expect)
				}
				if strings.Contains(out, "no-failing-input-found") && !strings.Contains(strings.ReplaceAll(out, "no-failing-input-found", ""), "replay=") {
				}
				fmt.Println()
			} else {
				okAll = false
				fmt.Printf("MISS %s: check %s did not fail as expected (caught=%v named=%v)\n", name, pr, caught, named)
				fmt.Println(indent(truncate(out, 1500)))
			}
		}
		if !okAll {
			failed++
		}
		os.RemoveAll(dir)
	}
	return failed == 0
}

func indent(s string) string { return "     | " + strings.ReplaceAll(s, "\n", "\n     | ") }

func jsonField(s, k string) string {
	i := strings.Index(s, "\""+k+"\"")
	if i < 0 {
		return ""
	}
	rest := s[i+len(k)+2:]
	j := strings.Index(rest, "\"")
	if j < 0 {
		return ""
	}
	rest = rest[j+1:]
	e := strings.Index(rest, "\"")
	if e < 0 {
		return ""
	}
	return rest[:e]
}
