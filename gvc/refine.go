package main

import (
	"fmt"
	"go/types"
	"sort"
	"strings"

	"golang.org/x/tools/go/ssa"
)

// Refinement of interface-method contracts: for every concrete type that implements the interface and whose method
// is under contract, the method's contract must imply the interface contract (with self = the boxed receiver).
// Callers that dispatch dynamically reason with the interface contract only, so this closes the modular argument
// for the implementers under contract; the others are reported as assumptions.

type refineTarget struct {
	iface  *Contract
	ikey   string
	impl   *ssa.Function
	icon   *Contract
	recvT  types.Type
}

func (w *World) refinementTargets(ifaceKey string) ([]refineTarget, []string) {
	c := w.CS.Funcs[ifaceKey]
	if c == nil || !c.Iface {
		return nil, nil
	}
	i := strings.LastIndex(ifaceKey, ".")
	itName, method := ifaceKey[:i], ifaceKey[i+1:]
	it, err := w.lookupType(itName, "")
	if err != nil {
		return nil, nil
	}
	iface, ok := it.Underlying().(*types.Interface)
	if !ok {
		return nil, nil
	}
	var out []refineTarget
	var assumed []string
	var paths []string
	for p := range w.TPkgs {
		if strings.HasPrefix(p, repoModule) {
			paths = append(paths, p)
		}
	}
	sort.Strings(paths)
	for _, p := range paths {
		scope := w.TPkgs[p].Scope()
		for _, name := range scope.Names() {
			tn, ok := scope.Lookup(name).(*types.TypeName)
			if !ok || tn.IsAlias() {
				continue
			}
			for _, t := range []types.Type{tn.Type(), types.NewPointer(tn.Type())} {
				if _, isI := t.Underlying().(*types.Interface); isI {
					continue
				}
				if !types.Implements(t, iface) {
					continue
				}
				if _, isPtr := t.(*types.Pointer); isPtr && types.Implements(tn.Type(), iface) {
					continue // value receiver already covers it
				}
				sel := w.Prog.MethodSets.MethodSet(t).Lookup(tn.Pkg(), method)
				if sel == nil {
					continue
				}
				fn := w.Prog.MethodValue(sel)
				if fn == nil {
					continue
				}
				// promoted/wrapper methods: find the declared method
				key := fn.String()
				ic := w.CS.Funcs[key]
				if ic == nil {
					assumed = append(assumed, typeKey(t))
					continue
				}
				out = append(out, refineTarget{c, ifaceKey, w.Funcs[key], ic, t})
			}
		}
	}
	return out, assumed
}

// encodeRefinement builds the obligations "contract of impl ==> contract of the interface method".
func encodeRefinement(w *World, rt refineTarget) *Enc {
	fn := rt.impl
	e := NewEnc(w, fn, rt.iface)
	e.allocKey()
	st0 := e.newState("0")
	e.entryState = e.newState("0")
	alloc0 := e.heapGet(st0, "$alloc")
	e.heapGet(e.entryState, "$alloc")
	fr := e.newFrame(fn, nil, "")
	fr.isTop = true
	var args []Term
	var argTypes []types.Type
	for i, p := range fn.Params {
		x := e.fresh(fmt.Sprintf("p%d_%s", i, p.Name()), e.sortOf(p.Type()))
		for _, f := range e.typeFacts(x, p.Type(), alloc0) {
			e.assume(tTrue, f)
		}
		args = append(args, x)
		argTypes = append(argTypes, p.Type())
		e.inputs = append(e.inputs, x.S)
	}
	if _, isPtr := rt.recvT.Underlying().(*types.Pointer); isPtr {
		e.assume(tTrue, T(SBool, "(not (= %s 0))", args[0].S))
	}
	// interface-level view of the arguments: self is the boxed receiver
	self := e.def("self", e.box(rt.recvT, args[0]))
	e.assume(tTrue, eq(T(SInt, "(tag %s)", self.S), e.typeID(rt.recvT)))
	e.assume(tTrue, same(e.unbox(rt.recvT, self), args[0]))
	e.assume(tTrue, not(eq(self, Term{"nil_iface", SIface})))
	ienv := &CEnv{e: e, vars: map[string]TT{}, cur: st0, old: e.entryState, pkg: rt.iface.Pkg, guard: tTrue}
	it, _ := w.lookupType(rt.ikey[:strings.LastIndex(rt.ikey, ".")], "")
	for i, n := range rt.iface.Params {
		if i == 0 {
			ienv.vars[n] = TT{self, it}
		} else if i < len(args) {
			ienv.vars[n] = TT{args[i], argTypes[i]}
		}
	}
	for _, gi := range w.CS.GInvs {
		genv := &CEnv{e: e, vars: map[string]TT{}, cur: st0, old: e.entryState, pkg: gi.Pkg, guard: tTrue}
		if g, err := genv.evalBool(gi.E); err == nil {
			e.assume(tTrue, g)
		}
	}
	for _, rq := range rt.iface.Requires {
		if g, err := ienv.evalBool(rq.E); err == nil {
			e.assume(tTrue, g)
		} else {
			e.problem("iface requires %s: %v", rq.Label, err)
		}
	}
	prefix := fmt.Sprintf("refine:%s:%s", shortFuncName(rt.ikey), typeKey(rt.recvT))
	cov := e.oblige(prefix+":cover:requires", "cover", tTrue, tTrue, "")
	cov.Cover = true
	// apply the implementer's contract (its requires become obligations: the interface precondition must suffice)
	st := st0.clone()
	before := len(e.obls)
	rs := e.applyContract(fr, rt.icon, fn.String(), args, argTypes, fn.Signature, st, tTrue, "")
	for _, o := range e.obls[before:] {
		o.Name = prefix + ":pre:" + o.Name[strings.LastIndex(o.Name, ":")+1:]
		o.Kind = "ensures"
	}
	post := &CEnv{e: e, vars: map[string]TT{}, cur: st, old: e.entryState, pkg: rt.iface.Pkg, guard: tTrue}
	for n, v := range ienv.vars {
		post.vars[n] = v
	}
	for i, n := range rt.iface.Results {
		if i < len(rs) {
			post.vars[n] = TT{rs[i], fn.Signature.Results().At(i).Type()}
		}
	}
	for _, en := range rt.iface.Ensures {
		g, err := post.evalBool(en.E)
		if err != nil {
			e.problem("iface ensures %s: %v", en.Label, err)
			continue
		}
		e.oblige(prefix+":"+en.Label, "ensures", tTrue, g, "")
	}
	// conditional purity of the interface contract must be honoured by the implementer
	if rt.iface.PureIf != nil {
		if pc, err := ienv.evalBool(rt.iface.PureIf); err == nil {
			var goals []Term
			var keys []string
			for k := range e.heapSort {
				keys = append(keys, k)
			}
			sort.Strings(keys)
			for _, k := range keys {
				if k == "$alloc" {
					continue
				}
				h0, hn := e.heapGet(e.entryState, k), e.heapGet(st, k)
				if h0.S == hn.S {
					continue
				}
				if strings.HasPrefix(k, "G:") {
					goals = append(goals, eq(hn, h0))
				} else {
					goals = append(goals, T(SBool, "(forall ((fr_r Int)) (=> (and (> fr_r 0) (< fr_r %s)) (= (select %s fr_r) (select %s fr_r))))", alloc0.S, hn.S, h0.S))
				}
			}
			if rt.icon.ModAll && rt.icon.PureIf == nil {
				goals = append(goals, tFalse)
			}
			e.oblige(prefix+":pureif", "frame", pc, and(goals...), "")
		}
	}
	return e
}
